/-
C04 — Saved state is complete and survives crashes.

Model: `Verif.Model.MptStore`. A round = a block trie `b0` with a fresh collector opened at a root whose tree `t0`
resolves in the persistent store `P0`; `es` = ALL `insertNode`/`deleteNode` calls made on the block trie during the
round (its own inserts/deletes and the replay of merged child tries); `t` = the tree of the final root.

What is proved for every event list: the collector algebra (`collector_algebra`), `store_mono`, completeness of the
save under the event discipline (`C04_complete_partial`), crash safety of every prefix of the save's write stream
(`C04_crash`, `C04_old_roots`).  The event discipline (`Disc`: a replaced node is live; and `hcov`: the nodes of the
final tree are in the live set computed from the events) is PROVED for every run of a trie - own inserts/deletes and the
replay of merged, possibly nested, child tries (`trieRun_discipline`), hence for every history of the interpreter
(`C04_complete_run`, `C04_complete_interp`); it is additionally checked by the harness on the recorded Go event log
(`checkDiscipline`).  Chain over all rounds: `C04_all_roots`; reading a saved root back: `C04_reopen_reads`; either order of
the two writes: `C04_crash_any_order`.  Assumed throughout: key injectivity on the references of the history (`KeyInjOn`).
-/
import Verif.Lemmas.MptStoreTrie
import Verif.Lemmas.MptRound
import Verif.Lemmas.MergeRound
import Verif.Lemmas.OrderChanges
import Verif.Lemmas.TrieRun
import Verif.Lemmas.NotStuck
import Verif.Lemmas.Interp
import Verif.Lemmas.RefKeyInj
import Verif.Lemmas.ResolvesBridge
import Verif.Props.C14
namespace Verif.Props.C04
open Verif.Mpt Verif.MptStore Verif.MptStore.Collector

/-- keys of the nodes of a tree -/
def nodeKeys (H : Bytes → Bytes) (t : Node) : List Bytes := (refs t []).map (Ref.key H)

/-- the nodes live when the round starts: those of the start tree -/
def Live0 (H : Bytes → Bytes) (t0 : Node) : Bytes → Prop := fun x => x ∈ nodeKeys H t0

/-- Within the set `U` of nodes a key determines the stored encoding.  For SHA3 this is collision resistance plus
    the absence, among the nodes of ONE history, of the leaf/extension hash-input ambiguity (known finding
    C02-type-confusion: the hash input carries no type tag, the stored encoding does). -/
def KeyFaithful (H : Bytes → Bytes) (U : Ref → Prop) : Prop :=
  ∀ a b, U a → U b → a.key H = b.key H → a.encode H = b.encode H

/-- A content-addressed store that only grows keeps every resolvable root resolvable. -/
theorem store_mono (H : Bytes → Bytes) {get get' : Bytes → Option Bytes} (t : Node) (pre : List Nib)
    (hsub : ∀ k v, get k = some v → get' k = some v) (h : Resolves H get t pre) : Resolves H get' t pre :=
  fun r hr => hsub _ _ (h r hr)

example : Resolves id (Map.get (Map.put ([] : Store) (Ref.key id ⟨[], .leaf 1 [] [65]⟩) (Ref.encode id ⟨[], .leaf 1 [] [65]⟩)))
    (.leaf 1 [] [65]) [] := by
  intro r hr
  simp [refs] at hr
  subst hr
  simp [Map.get_put]

/-- The collector algebra: for ANY call sequence obeying the discipline, started from an empty collector with live
    set `L0`, and `L` the live set after the calls:
    pending new nodes are live; every live node is an original one or a pending new one (so `newKeys ⊇ live \ L0`);
    no node reported deleted is live; the predecessor recorded in a pending change is an original node. -/
theorem collector_algebra {κ N : Type} [DecidableEq κ] (k : N → κ) (L0 : κ → Prop) (r : κ) (cs : List (Call N))
    (hd : Disc k L0 cs) :
    let cc := run k ({ startRoot := r } : Collector κ N) cs
    let L := liveRun k L0 cs
    (∀ x, x ∈ Map.keys cc.changes → L x) ∧
    (∀ x, L x → L0 x ∨ x ∈ Map.keys cc.changes) ∧
    (∀ x, x ∈ Map.keys cc.deletes → ¬ L x) ∧
    (∀ x c o, Map.get cc.changes x = some c → c.old = some o → L0 (k o)) := by
  intro cc L
  have inv := inv_run cs (inv_init k L0 r) hd
  refine ⟨?_, ?_, ?_, inv.old_original⟩
  · intro x hx
    rw [← Map.get_isSome_iff] at hx
    cases hg : Map.get cc.changes x with
    | none => simp [cc, hg] at hx
    | some c => exact inv.changes_live x c hg
  · intro x hx
    rcases inv.live_cover x hx with h | h
    · exact Or.inl h
    · exact Or.inr ((Map.get_isSome_iff _ _).mp h)
  · intro x hx
    rw [← Map.get_isSome_iff] at hx
    cases hg : Map.get cc.deletes x with
    | none => simp [cc, hg] at hx
    | some d => exact inv.deletes_dead x d hg

/-- non-vacuity: replace `1` by `2`, re-create `1` from scratch, replace `2` by `3` (keys = nodes = numbers) -/
example : Disc (fun n : Nat => n) (fun x => x = 1) [.add (some 1) 2, .add none 1, .add (some 2) 3] := by
  simp [Disc, CallOk, liveStep]

/-- **Saved state is complete** (partial: under the event discipline).  After `SaveChanges` has written the
    collector's new nodes in ONE batch, the tree of the new root resolves in the persistent store alone. -/
theorem C04_complete_partial (H : Bytes → Bytes) (P0 : PStore) (t0 t : Node) (b0 : Trie) (es : List Event)
    (hfresh : b0.cc.changes = [] ∧ b0.cc.deletes = [])
    (h0 : Resolves H (Map.get P0.nodes) t0 [])
    (hdisc : Disc (Ref.key H) (Live0 H t0) (callsOf H es))
    (hcov : ∀ r ∈ refs t [], liveRun (Ref.key H) (Live0 H t0) (callsOf H es) (r.key H))
    (hf : KeyFaithful H (fun r => r ∈ refs t0 [] ∨ r ∈ refs t [] ∨ r ∈ eventRefs es)) :
    Resolves H (Map.get (P0.applyAll (saveStream H (b0.applyEvents H es))).nodes) t [] := by
  intro r hr
  rw [save_nodes, applyEvents_cc]
  have hcc0 : b0.cc = { startRoot := b0.cc.startRoot } := by
    cases hb : b0.cc with
    | mk s c d => rw [hb] at hfresh; simp at hfresh; simp [hfresh.1, hfresh.2]
  rw [hcc0]
  have inv := inv_run (callsOf H es) (inv_init (Ref.key H) (Live0 H t0) b0.cc.startRoot) hdisc
  have prov := prov_run (P := fun r => r ∈ eventRefs es) (callsOf H es)
    (prov_init (Ref.key H) _ b0.cc.startRoot) (callNodes_callsOf H es)
  rcases get_after_batch H P0.nodes (run (Ref.key H) { startRoot := b0.cc.startRoot } (callsOf H es)) (r.key H) with
    ⟨e, he, hk, hg⟩ | ⟨hno, hg⟩
  · rw [hg]
    have hp := (prov.changes e he).2.1
    rw [hf e.2.new r (Or.inr (Or.inr hp)) (Or.inr (Or.inl hr)) hk]
  · rw [hg]
    rcases inv.live_cover (r.key H) (hcov r hr) with hl | hl
    · -- an original node: resolvable in the store before the save
      obtain ⟨r0, hr0, hk0⟩ := List.mem_map.mp hl
      rw [← hk0, h0 r0 hr0, hf r0 r (Or.inl hr0) (Or.inr (Or.inl hr)) hk0]
    · -- a pending new node would be in the batch
      exfalso
      cases hgc : Map.get (run (Ref.key H) { startRoot := b0.cc.startRoot } (callsOf H es)).changes (r.key H) with
      | none => rw [hgc] at hl; simp at hl
      | some c =>
        have hmem := Map.mem_of_get hgc
        exact hno _ hmem (prov.changes _ hmem).1

/-- non-vacuity of `C04_complete_partial`: an empty store, the first insert of a round -/
example : Resolves id
    (Map.get (({} : PStore).applyAll (saveStream id ((Trie.open [] .empty 1).applyEvents id
      (insertE 1 [65] .empty [] [3, 4]).2))).nodes) (insertE 1 [65] .empty [] [3, 4]).1 [] := by
  apply C04_complete_partial id {} .empty _ (Trie.open [] .empty 1) _ ⟨rfl, rfl⟩
  · intro r hr; simp [refs] at hr
  · simp [insertE, callsOf, callOf, Disc, CallOk]
  · intro r hr
    simp [insertE, refs] at hr
    subst hr
    simp [insertE, callsOf, callOf, liveRun, liveStep]
  · intro a b ha hb _
    simp [insertE, refs, eventRefs] at ha hb
    rw [ha, hb]

/-- **Saved state is complete** — closed form for a round of inserts and deletes on the block trie: the event
    discipline is PROVED for the emitted events (`Lemmas/EventDisc`: every replaced or deleted node is live, the final
    tree's nodes are live, at the level of (position, subtree) references; `Lemmas/EventKeys`: transfer to keys).
    Remaining hypotheses: the start tree is canonical and resolves, the collector is fresh, and the key is injective on
    the references of the start tree and of the round's events (`KeyInjOn`: SHA3 collision resistance plus absence of
    the untagged-encoding confusions of finding C02-type-confusion among these nodes). -/
theorem C04_complete (H : Bytes → Bytes) (P0 : PStore) (t0 t : Node) (b0 : Trie) (v : Nat) (es : List Event)
    (hfresh : b0.cc.changes = [] ∧ b0.cc.deletes = [])
    (h0 : Resolves H (Map.get P0.nodes) t0 [])
    (hw : WF t0)
    (hr : RoundEvents v t0 es t)
    (hU : KeyInjOn H (fun r => r ∈ refs t0 [] ∨ r ∈ eventRefs es)) :
    Resolves H (Map.get (P0.applyAll (saveStream H (b0.applyEvents H es))).nodes) t [] := by
  obtain ⟨hd, hc, _⟩ := round_discipline H hr hw hU
  obtain ⟨_, hcr, _⟩ := round_ok hr hw (fun r => r ∈ refs t0 []) (fun _ h => h)
  have hsub : ∀ r ∈ refs t [], r ∈ refs t0 [] ∨ r ∈ eventRefs es := fun r h => liveRunR_sub es _ r (hcr r h)
  apply C04_complete_partial H P0 t0 t b0 es hfresh h0 hd hc
  intro a b ha hb hk
  have haU : a ∈ refs t0 [] ∨ a ∈ eventRefs es := by
    rcases ha with ha | ha | ha
    · exact Or.inl ha
    · exact hsub a ha
    · exact Or.inr ha
  have hbU : b ∈ refs t0 [] ∨ b ∈ eventRefs es := by
    rcases hb with hb | hb | hb
    · exact Or.inl hb
    · exact hsub b hb
    · exact Or.inr hb
  rw [hU a b haU hbU hk]

/-- **Saved state is complete — from primitive assumptions on the hash.**  `C04_complete` with `KeyInjOn` discharged by
    `keyInjOn_of_hyps`: on a sub-node-closed set `V` of canonical nodes with origins below 2^64 containing the start
    tree's and the events' references, the hash has no collision between hash inputs of nodes of `V`, never returns the
    empty string, and no two nodes of different type in `V` have the same (untagged) hash input — the negation of
    exactly the confusions of known finding C02-type-confusion. -/
theorem C04_complete_primitive (H : Bytes → Bytes) (P0 : PStore) (t0 t : Node) (b0 : Trie) (v : Nat) (es : List Event)
    (V : Ref → Prop) (hy : KeyHyps H V) (hV : ∀ r, (r ∈ refs t0 [] ∨ r ∈ eventRefs es) → V r)
    (hfresh : b0.cc.changes = [] ∧ b0.cc.deletes = [])
    (h0 : Resolves H (Map.get P0.nodes) t0 []) (hw : WF t0) (hr : RoundEvents v t0 es t) :
    Resolves H (Map.get (P0.applyAll (saveStream H (b0.applyEvents H es))).nodes) t [] :=
  C04_complete H P0 t0 t b0 v es hfresh h0 hw hr
    (fun a b ha hb hk => keyInjOn_of_hyps H V hy a b (hV a ha) (hV b hb) hk)

/-- non-vacuity of `KeyHyps`: one leaf, the injective non-empty hash `x ↦ 0 :: x` -/
example : KeyHyps (fun x => (0 : UInt8) :: x) (fun r => r = ⟨[], .leaf 1 [3] [65]⟩) where
  closed := by intro r hr s hs; subst hr; simpa [refs] using hs
  wf := by intro r hr; subst hr; simp [WFn]
  org := by intro r hr; subst hr; simp [origin]
  hne := by intro x; simp
  hH := by intro a b ha hb _; subst ha; subst hb; rfl
  hsep := by intro a b ha hb _; subst ha; subst hb; simp [sameCtor]

/-- **Saved state is complete — a round with one merged transaction.**  The block trie `b0` (fresh collector) executes
    the round `esP` from `t0` to `t1`; a child opened on `t1` (fresh collector `c0`) executes the round `esC` to `t2`;
    the block trie replays the child's pending changes in the order `orderChanges` computes, then its deletes
    (`mergeChanges`), and saves.  The event discipline is PROVED for all of it (own operations: Lemmas/EventDisc;
    the replay: Lemmas/Collector2, MergeCalls).  Remaining hypotheses: canonical resolvable start tree, key injectivity
    on the references involved.  (That `orderChanges` does not get stuck on the child's changes is proved,
    `trieRun_not_stuck`; then its output is a permutation in which no change replaces a key after a change (re)created
    it, `orderChanges_good`.) -/
theorem C04_complete_one_merge (H : Bytes → Bytes) (P0 : PStore) (t0 t1 t2 : Node) (b0 c0 : Trie) (v : Nat)
    (esP esC : List Event)
    (hfresh : b0.cc.changes = [] ∧ b0.cc.deletes = []) (hfreshC : c0.cc.changes = [] ∧ c0.cc.deletes = [])
    (h0 : Resolves H (Map.get P0.nodes) t0 []) (hw : WF t0)
    (hP : RoundEvents v t0 esP t1) (hC : RoundEvents v t1 esC t2)
    (hU : KeyInjOn H (fun r => r ∈ refs t0 [] ∨ r ∈ eventRefs esP ∨ r ∈ eventRefs esC)) :
    Resolves H (Map.get (P0.applyAll (saveStream H (b0.applyEvents H
      (esP ++ mergeEvents (orderChanges H (c0.applyEvents H esC).cc.getChanges) (c0.applyEvents H esC).cc.getDeletes)))).nodes)
      t2 [] := by
  obtain ⟨_, hcrP0, hw10⟩ := round_ok hP hw (fun r => r ∈ refs t0 []) (fun _ h => h)
  have hstuck : orderStuck H (c0.applyEvents H esC).cc.getChanges = false := by
    have hrunC : TrieRun H (fun r => r ∈ refs t0 [] ∨ r ∈ eventRefs esP ∨ r ∈ eventRefs esC) (fun _ => True) t1 (esC ++ []) t2 :=
      TrieRun.own v t1 t2 t2 esC [] trivial hC (fun r hr => Or.inr (Or.inr hr)) (TrieRun.nil _)
    have hUt1 : ∀ r ∈ refs t1 [], r ∈ refs t0 [] ∨ r ∈ eventRefs esP ∨ r ∈ eventRefs esC := by
      intro r hr
      rcases liveRunR_sub esP _ r (hcrP0 r hr) with h | h
      · exact Or.inl h
      · exact Or.inr (Or.inl h)
    have := trieRun_not_stuck H _ hU hrunC hw10 hUt1 c0 hfreshC (c0.applyEvents H esC).cc.getChanges
      (by simp)
    exact this
  have hgood := orderChanges_good H _ hstuck
  obtain ⟨hd, hc, hsubE⟩ := one_merge_discipline H hP hC hw c0 hfreshC _ (orderChanges_perm H _) hgood hU
  obtain ⟨_, hcrP, hw1⟩ := round_ok hP hw (fun r => r ∈ refs t0 []) (fun _ h => h)
  obtain ⟨_, hcrC, _⟩ := round_ok hC hw1 (fun r => r ∈ refs t1 []) (fun _ h => h)
  have hin : ∀ r, (r ∈ refs t0 [] ∨ r ∈ refs t2 [] ∨ r ∈ eventRefs (esP ++ mergeEvents (orderChanges H
      (c0.applyEvents H esC).cc.getChanges) (c0.applyEvents H esC).cc.getDeletes)) →
      (r ∈ refs t0 [] ∨ r ∈ eventRefs esP ∨ r ∈ eventRefs esC) := by
    intro r hr
    rcases hr with hr | hr | hr
    · exact Or.inl hr
    · rcases liveRunR_sub esC _ r (hcrC r hr) with h | h
      · rcases liveRunR_sub esP _ r (hcrP r h) with h | h
        · exact Or.inl h
        · exact Or.inr (Or.inl h)
      · exact Or.inr (Or.inr h)
    · exact Or.inr (hsubE r hr)
  apply C04_complete_partial H P0 t0 t2 b0 _ hfresh h0 hd hc
  intro a b ha hb hk
  rw [hU a b (hin a ha) (hin b hb) hk]

/-- **Saved state is complete — any round of a block trie**: own operations and merges of transactions in any number
    and order, transactions themselves containing nested merged transactions (`TrieRun`; each child is opened on the
    current tree with a fresh collector and its pending changes are replayed in the order `orderChanges` computes, which
    must not be stuck).  No discipline hypothesis: it is proved for every such run (`trieRun_discipline`).  Remaining:
    canonical resolvable start tree, key injectivity on the references `U` of the run. -/
theorem C04_complete_run (H : Bytes → Bytes) (U : Ref → Prop) (Vok : Nat → Prop) (P0 : PStore) (t0 t : Node) (b0 : Trie)
    (es : List Event)
    (hfresh : b0.cc.changes = [] ∧ b0.cc.deletes = [])
    (h0 : Resolves H (Map.get P0.nodes) t0 []) (hw : WF t0) (hUt : ∀ r ∈ refs t0 [], U r)
    (hrun : TrieRun H U Vok t0 es t) (hU : KeyInjOn H U) :
    Resolves H (Map.get (P0.applyAll (saveStream H (b0.applyEvents H es))).nodes) t [] := by
  obtain ⟨hd, hc, _, hE, hUt'⟩ := trieRun_discipline H U hU hrun hw hUt (fun x => x ∈ (refs t0 []).map (Ref.key H))
    (fun r hr => List.mem_map.mpr ⟨r, hr, rfl⟩)
    (by intro x hx; obtain ⟨r, hr, hk⟩ := List.mem_map.mp hx; exact ⟨r, hUt r hr, hk⟩)
  apply C04_complete_partial H P0 t0 t b0 es hfresh h0 hd hc
  intro a b ha hb hk
  have hin : ∀ r, (r ∈ refs t0 [] ∨ r ∈ refs t [] ∨ r ∈ eventRefs es) → U r := by
    intro r hr
    rcases hr with hr | hr | hr
    · exact hUt r hr
    · exact hUt' r hr
    · exact hE r hr
  rw [hU a b (hin a ha) (hin b hb) hk]

/-- **Saved state is complete — every history of the interpreter.**  `Forest.step` (Verif.Model.MptInterp) is the
    interpreter of the trie-building ops of the store-layer op language (child / ins / del / merge [raw] [keep] /
    discard / ver), through which the model driver replays every generated history next to the Go code.  For ANY op
    list executed from a freshly opened block trie on a canonical, resolvable tree, saving the block trie makes its
    tree resolve in the persistent store (`interp_is_trieRun`: every reachable trie has a `TrieRun` history).
    Side conditions (`RunIn`): the references of the executed operations stay inside `U`, on which the key is injective;
    versions satisfy `Vok` (any predicate); the hash is never empty.  (That no replayed ordering gets stuck is proved:
    `trieRun_not_stuck`.) -/
theorem C04_complete_interp (H : Bytes → Bytes) (ord : List (Change Ref) → List (Change Ref)) (hord : ∀ l, (ord l).Perm l)
    (U : Ref → Prop) (Vok : Nat → Prop) (hU : KeyInjOn H U) (hne : ∀ x, H x ≠ []) (P0 : PStore) (t0 : Node) (v : Nat)
    (hw : WF t0) (hu : ∀ r ∈ refs t0 [], U r) (h0 : Resolves H (Map.get P0.nodes) t0 []) (ops : List TOp)
    (hin : RunIn H ord U Vok { tries := [(0, 0, Trie.open (root H t0) t0 v)] } ops) (pid : Nat) (b : Trie)
    (hb : (Forest.run H ord { tries := [(0, 0, Trie.open (root H t0) t0 v)] } ops).find 0 = some (pid, b)) :
    Resolves H (Map.get (P0.applyAll (saveStream H b)).nodes) b.tree [] := by
  obtain ⟨es, v0, h1, _, hrun, _⟩ := block_is_trieRun H ord hord U Vok hU hne t0 v hw hu ops hin pid b hb
  have := C04_complete_run H U Vok P0 t0 b.tree (Trie.open (root H t0) t0 v0) es ⟨rfl, rfl⟩ h0 hw hu hrun hU
  rw [save_nodes] at this ⊢
  rw [h1]; exact this

/-- an injective hash that never returns the empty string, for the non-vacuity example below -/
def exH : Bytes → Bytes := fun x => 0 :: x

/-- non-vacuity of `C04_complete_interp`: open a child, insert a key, merge it, on the empty block trie -/
example : ∃ pid b, (Forest.run exH (fun l => l) { tries := [(0, 0, Trie.open (root exH .empty) .empty 1)] }
      [.child 1 0, .ins 1 [3] [65], .merge 1 false]).find 0 = some (pid, b) ∧
    Resolves exH (Map.get (({} : PStore).applyAll (saveStream exH b)).nodes) b.tree [] := by
  refine ⟨_, _, rfl, ?_⟩
  apply C04_complete_interp exH (fun l => l) (fun l => List.Perm.refl l)
    (fun r => r = ⟨[], .leaf 1 [3] [65]⟩) (fun _ => True) _ _ {} .empty 1 (Or.inl rfl) (by intro r h; simp [refs] at h)
    (by intro r h; simp [refs] at h) [.child 1 0, .ins 1 [3] [65], .merge 1 false] _ _ _ rfl
  · intro a b ha hb _; rw [ha, hb]
  · intro x; simp [exH]
  · refine ⟨trivial, ?_, by simp [StepIn], trivial⟩
    intro pid t hf
    simp [Forest.step, Forest.find, Trie.open] at hf
    obtain ⟨_, rfl⟩ := hf
    simp [insertE, eventRefs]

/-- non-vacuity of `C04_complete_run` (and `TrieRun`): the block trie merges one transaction that inserted a key -/
example : ∃ es, TrieRun id (fun r => r = ⟨[], .leaf 1 [3] [65]⟩) (fun v => v = 1) .empty es (.leaf 1 [3] [65]) ∧
    Resolves id (Map.get (({} : PStore).applyAll (saveStream id ((Trie.open [] .empty 1).applyEvents id es))).nodes)
      (.leaf 1 [3] [65]) [] := by
  have hC : RoundEvents 1 .empty ((insertE 1 [65] .empty [] [3]).2 ++ []) (.leaf 1 [3] [65]) := by
    apply RoundEvents.ins _ _ _ _ _ (by simp)
    have h1 : (insertE 1 [65] .empty [] [3]).1 = .leaf 1 [3] [65] := by simp [insertE]
    rw [h1]; exact RoundEvents.nil _
  have hchild : TrieRun id (fun r => r = ⟨[], .leaf 1 [3] [65]⟩) (fun v => v = 1) .empty
      (((insertE 1 [65] .empty [] [3]).2 ++ []) ++ []) (.leaf 1 [3] [65]) :=
    TrieRun.own 1 _ _ _ _ _ rfl hC (by intro r hr; simpa [insertE, eventRefs] using hr) (TrieRun.nil _)
  have hrun := TrieRun.merge (H := id) (U := fun r => r = ⟨[], .leaf 1 [3] [65]⟩) (Vok := fun v => v = 1) .empty (.leaf 1 [3] [65])
    (.leaf 1 [3] [65]) (Trie.open [] .empty 1) _ [] _ ⟨rfl, rfl⟩ hchild (List.Perm.refl _) (by decide) (TrieRun.nil _)
  refine ⟨_, hrun, ?_⟩
  apply C04_complete_run id _ _ {} .empty _ (Trie.open [] .empty 1) _ ⟨rfl, rfl⟩ (by intro r h; simp [refs] at h)
    (Or.inl rfl) (by intro r h; simp [refs] at h) hrun
  intro a b ha hb _
  rw [ha, hb]

/-- non-vacuity of `C04_complete_one_merge`: the block trie does nothing itself, one transaction inserts a key -/
example : Resolves id (Map.get (({} : PStore).applyAll (saveStream id ((Trie.open [] .empty 1).applyEvents id
      ([] ++ mergeEvents (orderChanges id ((Trie.open [] .empty 1).applyEvents id (insertE 1 [65] .empty [] [3]).2).cc.getChanges)
        ((Trie.open [] .empty 1).applyEvents id (insertE 1 [65] .empty [] [3]).2).cc.getDeletes)))).nodes)
      (.leaf 1 [3] [65]) [] := by
  have hC : RoundEvents 1 .empty ((insertE 1 [65] .empty [] [3]).2 ++ []) (.leaf 1 [3] [65]) := by
    apply RoundEvents.ins _ _ _ _ _ (by simp)
    have h1 : (insertE 1 [65] .empty [] [3]).1 = .leaf 1 [3] [65] := by simp [insertE]
    rw [h1]; exact RoundEvents.nil _
  have := C04_complete_one_merge id {} .empty .empty (.leaf 1 [3] [65]) (Trie.open [] .empty 1) (Trie.open [] .empty 1) 1
    [] ((insertE 1 [65] .empty [] [3]).2 ++ []) ⟨rfl, rfl⟩ ⟨rfl, rfl⟩ (by intro r h; simp [refs] at h) (Or.inl rfl)
    (RoundEvents.nil _) hC (by
      intro a b ha hb _
      simp [refs, insertE, eventRefs] at ha hb
      rw [ha, hb])
  simpa using this

/-- non-vacuity of `C04_complete`: a round that inserts a key and overwrites it, saved into an empty store -/
example : ∃ t, RoundEvents 1 .empty ((insertE 1 [65] .empty [] [3]).2 ++ ((insertE 1 [66] (.leaf 1 [3] [65]) [] [3]).2 ++ [])) t ∧
    Resolves id (Map.get (({} : PStore).applyAll (saveStream id ((Trie.open [] .empty 1).applyEvents id
      ((insertE 1 [65] .empty [] [3]).2 ++ ((insertE 1 [66] (.leaf 1 [3] [65]) [] [3]).2 ++ []))))).nodes) t [] := by
  have hr : RoundEvents 1 .empty ((insertE 1 [65] .empty [] [3]).2 ++ ((insertE 1 [66] (.leaf 1 [3] [65]) [] [3]).2 ++ []))
      (.leaf 1 [3] [66]) := by
    apply RoundEvents.ins _ _ _ _ _ (by simp)
    have h1 : (insertE 1 [65] .empty [] [3]).1 = .leaf 1 [3] [65] := by simp [insertE]
    rw [h1]
    apply RoundEvents.ins _ _ _ _ _ (by simp)
    have h2 : (insertE 1 [66] (.leaf 1 [3] [65]) [] [3]).1 = .leaf 1 [3] [66] := by simp [insertE, splitCommon]
    rw [h2]
    exact RoundEvents.nil _
  refine ⟨_, hr, C04_complete id {} .empty _ (Trie.open [] .empty 1) 1 _ ⟨rfl, rfl⟩ ?_ (Or.inl rfl) hr ?_⟩
  · intro r h; simp [refs] at h
  · intro a b ha hb hk
    simp [refs, insertE, splitCommon, eventRefs] at ha hb
    have hne : Ref.key id ⟨[], .leaf 1 [3] [65]⟩ ≠ Ref.key id ⟨[], .leaf 1 [3] [66]⟩ := by
      intro h
      simp [Ref.key, key, le64] at h
    rcases ha with ha | ha <;> rcases hb with hb | hb <;> subst ha <;> subst hb <;>
      first | rfl | exact absurd hk hne | exact absurd hk.symm hne

/-- **Crash safety of a save.**  For ANY prefix of the save's write stream `[batch of new nodes, dead-node record]`
    every tree that resolved in the store before the save still resolves. -/
theorem C04_crash (H : Bytes → Bytes) (P0 : PStore) (b : Trie) (told : Node) (n : Nat)
    (hold : Resolves H (Map.get P0.nodes) told [])
    (hf : KeyFaithful H (fun r => r ∈ refs told [] ∨ ∃ e ∈ b.cc.changes, e.2.new = r)) :
    Resolves H (Map.get (P0.applyAll ((saveStream H b).take n)).nodes) told [] := by
  intro r hr
  rcases save_prefix_nodes H P0 b n with h | h
  · rw [h]; exact hold r hr
  · rw [h]
    rcases get_after_batch H P0.nodes b.cc (r.key H) with ⟨e, he, hk, hg⟩ | ⟨_, hg⟩
    · rw [hg, hf e.2.new r (Or.inr ⟨e, he, rfl⟩) (Or.inl hr) hk]
    · rw [hg]; exact hold r hr

/-- Every root saved earlier still resolves after a complete save (the prefix of length 2). -/
theorem C04_old_roots (H : Bytes → Bytes) (P0 : PStore) (b : Trie) (told : Node)
    (hold : Resolves H (Map.get P0.nodes) told [])
    (hf : KeyFaithful H (fun r => r ∈ refs told [] ∨ ∃ e ∈ b.cc.changes, e.2.new = r)) :
    Resolves H (Map.get (P0.applyAll (saveStream H b)).nodes) told [] := by
  have := C04_crash H P0 b told 2 hold hf
  simpa [saveStream] using this

/-- **Re-saving after a crash converges.**  Re-executing a round is re-evaluating the same function, so it yields the
    same trie `b`; saving it over the state left by ANY prefix of the interrupted save gives, for every key and every
    version, the same store as the uninterrupted save. -/
theorem C04_resave (H : Bytes → Bytes) (P0 : PStore) (b : Trie) (n : Nat) :
    let Pk := P0.applyAll ((saveStream H b).take n)
    (∀ x, Map.get (Pk.applyAll (saveStream H b)).nodes x = Map.get (P0.applyAll (saveStream H b)).nodes x) ∧
    (∀ v, Map.get (Pk.applyAll (saveStream H b)).dead v = Map.get (P0.applyAll (saveStream H b)).dead v) := by
  match n with
  | 0 => intro Pk; exact ⟨fun _ => rfl, fun _ => rfl⟩
  | 1 =>
    intro Pk
    refine ⟨fun x => ?_, fun v => ?_⟩
    · simp only [Pk, saveStream, List.take, PStore.applyAll, List.foldl, PStore.apply]
      exact Map.get_putAll_idem _ _ x
    · simp [Pk, saveStream, PStore.applyAll, PStore.apply]
  | n + 2 =>
    intro Pk
    have ht : (saveStream H b).take (n + 2) = saveStream H b := by simp [saveStream]
    refine ⟨fun x => ?_, fun v => ?_⟩
    · simp only [Pk, ht]
      simp only [saveStream, PStore.applyAll, List.foldl, PStore.apply]
      exact Map.get_putAll_idem _ _ x
    · simp only [Pk, ht]
      simp only [saveStream, PStore.applyAll, List.foldl, PStore.apply, Map.get_put]
      split <;> rfl

/-- non-vacuity of `C04_crash`: an old one-leaf tree survives every prefix of the save of another leaf -/
example (n : Nat) :
    let old : Ref := ⟨[], .leaf 1 [1] [65]⟩
    let b := (Trie.open [] .empty 2).applyEvents id (insertE 2 [66] .empty [] [2]).2
    Resolves id (Map.get (({ nodes := [(old.key id, old.encode id)] } : PStore).applyAll ((saveStream id b).take n)).nodes)
      (.leaf 1 [1] [65]) [] := by
  intro old b
  apply C04_crash
  · intro r hr; simp [refs] at hr; subst hr; simp [Map.get, old]
  · intro a c ha hc hk
    have hb : b.cc.changes = [(Ref.key id ⟨[], .leaf 2 [2] [66]⟩, ⟨none, ⟨[], .leaf 2 [2] [66]⟩⟩)] := by
      simp [b, insertE, Trie.applyEvents, Trie.applyEvent, Trie.insertNode, Trie.open, Collector.addChange, Map.put, Map.del]
    rw [hb] at ha hc
    simp [refs] at ha hc
    rcases ha with ha | ha <;> rcases hc with hc | hc
    · rw [ha, hc]
    · subst ha; subst hc; simp [Ref.key, key, le64] at hk
      exact absurd (congrArg List.getLast? hk) (by simp)
    · subst ha; subst hc; simp [Ref.key, key, le64] at hk
      exact absurd (congrArg List.getLast? hk) (by simp)
    · rw [← ha, ← hc]
/-! ### every root ever saved; reading a saved root back; the order of the two writes of a save -/

/-- **Every saved root resolves after every later save.**  `P i` is the persistent store after round `i`'s save
    (`P (i+1)` = `P i` after the write stream of the block trie of round `i+1`), `T i` the tree saved by round `i`, round
    `i+1` a `TrieRun` from `T i` (own operations and merged transactions at any versions).  Then after `i` rounds every
    root saved so far resolves in the persistent store alone: `T j` in `P i` for all `j ≤ i`.  (Pruning is C05:
    `C05_history_safe` takes these stores through prunes.)  Assumed: key injectivity on the references of the chain. -/
theorem C04_all_roots (H : Bytes → Bytes) (U : Ref → Prop) (hU : KeyInjOn H U) (Vok : Nat → Nat → Prop) (T : Nat → Node)
    (E : Nat → List Event) (b : Nat → Trie) (P : Nat → PStore)
    (hfresh : ∀ i, (b i).cc.changes = [] ∧ (b i).cc.deletes = [])
    (hrun : ∀ i, TrieRun H U (Vok (i + 1)) (T i) (E (i + 1)) (T (i + 1)))
    (hP : ∀ i, P (i + 1) = (P i).applyAll (saveStream H ((b i).applyEvents H (E (i + 1)))))
    (h0 : Resolves H (Map.get (P 0).nodes) (T 0) []) (hw0 : WF (T 0)) (hU0 : ∀ r ∈ refs (T 0) [], U r) :
    ∀ i j, j ≤ i → Resolves H (Map.get (P i).nodes) (T j) [] := by
  have hdisc : ∀ i, WF (T i) → (∀ r ∈ refs (T i) [], U r) →
      Disc (Ref.key H) (fun x => x ∈ (refs (T i) []).map (Ref.key H)) (callsOf H (E (i + 1))) ∧ WF (T (i + 1)) ∧
      (∀ r ∈ eventRefs (E (i + 1)), U r) ∧ (∀ r ∈ refs (T (i + 1)) [], U r) := by
    intro i hw hu
    obtain ⟨hd, _, hw', hE, hu'⟩ := trieRun_discipline H U hU (hrun i) hw hu (fun x => x ∈ (refs (T i) []).map (Ref.key H))
      (fun r hr => List.mem_map.mpr ⟨r, hr, rfl⟩)
      (by intro x hx; obtain ⟨r, hr, hk⟩ := List.mem_map.mp hx; exact ⟨r, hu r hr, hk⟩)
    exact ⟨hd, hw', hE, hu'⟩
  have hinv : ∀ i, WF (T i) ∧ ∀ r ∈ refs (T i) [], U r := by
    intro i
    induction i with
    | zero => exact ⟨hw0, hU0⟩
    | succ i ih => obtain ⟨_, hw', _, hu'⟩ := hdisc i ih.1 ih.2; exact ⟨hw', hu'⟩
  intro i
  induction i with
  | zero => intro j hj; rw [Nat.le_zero.mp hj]; exact h0
  | succ i ih =>
    intro j hj
    rw [hP i]
    rcases Nat.lt_or_ge j (i + 1) with hlt | hge
    · -- an older root: the save only adds nodes whose keys determine their encodings
      apply C04_old_roots H (P i) _ (T j) (ih j (Nat.lt_succ_iff.mp hlt))
      intro a c ha hc hk
      obtain ⟨hd, _, hE, _⟩ := hdisc i (hinv i).1 (hinv i).2
      obtain ⟨_, _, prov⟩ := collector_invs H _ (b i) (E (i + 1)) (hfresh i) hd
      have hin : ∀ r, (r ∈ refs (T j) [] ∨ ∃ e ∈ ((b i).applyEvents H (E (i + 1))).cc.changes, e.2.new = r) → U r := by
        intro r hr
        rcases hr with hr | ⟨e, he, rfl⟩
        · exact (hinv j).2 r hr
        · exact hE _ (prov.changes e he).2.1
      rw [hU a c (hin a ha) (hin c hc) hk]
    · have hji : j = i + 1 := Nat.le_antisymm hj hge
      rw [hji]
      exact C04_complete_run H U (Vok (i + 1)) (P i) (T i) (T (i + 1)) (b i) (E (i + 1)) (hfresh i) (ih i (Nat.le_refl i))
        (hinv i).1 (hinv i).2 (hrun i) hU

/-- **A saved root reads back exactly the saved content.**  A tree that resolves in a store (`Resolves`, what the save
    theorems establish) is, read from its root key by decoding the stored bytes (`buildP`, the model of opening a trie on
    the store), the tree itself: every lookup over the decoded bytes answers what the tree holds.  Composition of the
    store layer with `C14_reload` through `ref_encode_eq` (the store layer's bytes are the codec's encoding). -/
theorem C04_reopen_reads (H : Bytes → Bytes) (hH : ∀ b, (H b).length = 32) (get : Bytes → Option Bytes) (t : Node)
    (hw : WFn t) (h : Resolves H get t []) (n : Nat) (hn : Verif.Partial.depth (Verif.Partial.toP t) < n) (p : List Nib) :
    Verif.Partial.lookupP (Verif.Partial.buildP get n (key H t [])) (p.map nibChar) = Verif.Partial.ofOpt (lookup t p) :=
  ((Verif.Props.C14.C14_reload H hH get t [] hw (partial_resolves_of_resolves H get t [] h)).2 n hn).2 p

/-- the two writes of a save in the order given by `recFirst` (`false`: node batch then dead-node record, the order the
    harness uses; `true`: the record first, as the in-repo test caller does) -/
def saveStreamOrd (H : Bytes → Bytes) (recFirst : Bool) (t : Trie) : List Write :=
  if recFirst then (saveStream H t).reverse else saveStream H t

/-- **The order of the two writes does not matter for the nodes**: for either order, after any prefix of the save's
    writes every tree that resolved before still resolves, and after both writes the node store is the same. -/
theorem C04_crash_any_order (H : Bytes → Bytes) (recFirst : Bool) (P0 : PStore) (b : Trie) (told : Node) (n : Nat)
    (hold : Resolves H (Map.get P0.nodes) told [])
    (hf : KeyFaithful H (fun r => r ∈ refs told [] ∨ ∃ e ∈ b.cc.changes, e.2.new = r)) :
    Resolves H (Map.get (P0.applyAll ((saveStreamOrd H recFirst b).take n)).nodes) told [] ∧
    (P0.applyAll (saveStreamOrd H recFirst b)).nodes = (P0.applyAll (saveStream H b)).nodes := by
  cases recFirst with
  | false => exact ⟨C04_crash H P0 b told n hold hf, rfl⟩
  | true =>
    refine ⟨?_, by simp [saveStreamOrd, saveStream, PStore.applyAll, PStore.apply]⟩
    match n with
    | 0 => simpa [PStore.applyAll] using hold
    | 1 => simpa [saveStreamOrd, saveStream, PStore.applyAll, PStore.apply] using hold
    | n + 2 =>
      have h2 := C04_crash H P0 b told 2 hold hf
      simpa [saveStreamOrd, saveStream, PStore.applyAll, PStore.apply] using h2
/-- non-vacuity of `C04_crash_any_order`: the save is cut in the middle (one of its two writes done), in either order;
    an old one-leaf tree survives -/
example (recFirst : Bool) :
    let old : Ref := ⟨[], .leaf 1 [1] [65]⟩
    let b := (Trie.open [] .empty 2).applyEvents id (insertE 2 [66] .empty [] [2]).2
    Resolves id (Map.get (({ nodes := [(old.key id, old.encode id)] } : PStore).applyAll ((saveStreamOrd id recFirst b).take 1)).nodes)
      (.leaf 1 [1] [65]) [] := by
  intro old b
  refine (C04_crash_any_order id recFirst _ b (.leaf 1 [1] [65]) 1 ?_ ?_).1
  · intro r hr; simp [refs] at hr; subst hr; simp [Map.get, old]
  · intro a c ha hc hk
    have hb : b.cc.changes = [(Ref.key id ⟨[], .leaf 2 [2] [66]⟩, ⟨none, ⟨[], .leaf 2 [2] [66]⟩⟩)] := by
      simp [b, insertE, Trie.applyEvents, Trie.applyEvent, Trie.insertNode, Trie.open, Collector.addChange, Map.put, Map.del]
    rw [hb] at ha hc
    simp [refs] at ha hc
    rcases ha with ha | ha <;> rcases hc with hc | hc
    · rw [ha, hc]
    · subst ha; subst hc; simp [Ref.key, key, le64] at hk
      exact absurd (congrArg List.getLast? hk) (by simp)
    · subst ha; subst hc; simp [Ref.key, key, le64] at hk
      exact absurd (congrArg List.getLast? hk) (by simp)
    · rw [← ha, ← hc]

/-- non-vacuity of `C04_reopen_reads`: a store that holds the node of a one-leaf tree (32-byte keys); reading the root
    key back through the decoder answers the lookup of the tree -/
example (p : List Nib) :
    let H : Bytes → Bytes := fun _ => List.replicate 32 0
    let get : Bytes → Option Bytes := fun _ => some (Ref.encode H ⟨[], .leaf 1 [] [65]⟩)
    Verif.Partial.lookupP (Verif.Partial.buildP get 2 (key H (.leaf 1 [] [65]) [])) (p.map nibChar)
      = Verif.Partial.ofOpt (lookup (.leaf 1 [] [65]) p) := by
  intro H get
  apply C04_reopen_reads H (by intro b; simp [H]) get (.leaf 1 [] [65]) (by simp [WFn])
  · intro r hr; simp [refs] at hr; subst hr; rfl
  · simp [Verif.Partial.toP, Verif.Partial.depth]
/-- the events of the witness chain of `C04_all_roots`: round 1 inserts `[3] := 65` (version 1), round 2 deletes it
    (version 2), later rounds do nothing -/
def xE : Nat → List Event := fun i =>
  if i = 1 then (insertE 1 [65] .empty [] [3]).2 ++ []
  else if i = 2 then (deleteE 2 (.leaf 1 [3] [65]) [] [3]).2 ++ [] else []

def xT : Nat → Node := fun i => if i = 1 then .leaf 1 [3] [65] else .empty

/-- the persistent store after each round's save -/
def xP : Nat → PStore
  | 0 => {}
  | i + 1 => (xP i).applyAll (saveStream id ((Trie.open [] .empty (i + 1)).applyEvents id (xE (i + 1))))

/-- non-vacuity of `C04_all_roots`: two non-empty rounds (an insert, then a delete), every saved root resolves later -/
example : ∀ i j, j ≤ i → Resolves id (Map.get (xP i).nodes) (xT j) [] := by
  apply C04_all_roots id (fun r => r = ⟨[], .leaf 1 [3] [65]⟩) (by intro a c ha hc _; rw [ha, hc]) (fun i v => v = i) xT xE
    (fun i => Trie.open [] .empty (i + 1)) xP (fun _ => ⟨rfl, rfl⟩)
  · intro i
    match i with
    | 0 =>
      have hround : RoundEvents 1 .empty ((insertE 1 [65] .empty [] [3]).2 ++ []) (.leaf 1 [3] [65]) := by
        apply RoundEvents.ins _ _ _ _ _ (by simp)
        have h1 : (insertE 1 [65] .empty [] [3]).1 = .leaf 1 [3] [65] := by simp [insertE]
        rw [h1]; exact RoundEvents.nil _
      have := TrieRun.own (H := id) (U := fun r => r = ⟨[], .leaf 1 [3] [65]⟩) (Vok := fun v => v = 1) 1 _ _ _ _ [] rfl hround
        (by intro a ha; simp [insertE, eventRefs] at ha; exact ha) (TrieRun.nil _)
      simpa [xT, xE] using this
    | 1 =>
      have hd : deleteE 2 (.leaf 1 [3] [65]) [] [3] = (.removed, (deleteE 2 (.leaf 1 [3] [65]) [] [3]).2) := by
        simp [deleteE, splitCommon]
      have hround : RoundEvents 2 (.leaf 1 [3] [65]) ((deleteE 2 (.leaf 1 [3] [65]) [] [3]).2 ++ []) .empty :=
        RoundEvents.delLast _ [3] _ _ _ hd (RoundEvents.nil _)
      have := TrieRun.own (H := id) (U := fun r => r = ⟨[], .leaf 1 [3] [65]⟩) (Vok := fun v => v = 2) 2 _ _ _ _ [] rfl hround
        (by intro a ha; simp [deleteE, splitCommon, eventRefs] at ha; exact ha) (TrieRun.nil _)
      simpa [xT, xE] using this
    | i + 2 =>
      have h1 : xE (i + 2 + 1) = [] := by simp [xE]
      have h2 : xT (i + 2) = .empty := by simp [xT]
      have h3 : xT (i + 2 + 1) = .empty := by simp [xT]
      rw [h1, h2, h3]; exact TrieRun.nil _
  · intro i; rfl
  · intro r hr; simp [xT, refs] at hr
  · exact Or.inl rfl
  · intro r hr; simp [xT, refs] at hr

end Verif.Props.C04
