/-
C15 (weighted-trie half, operations on an ACCEPTED import) — "anything the decoders accept is processed without panic".

The operation models of Verif.Model.WmptOps / WmptProof (insert, delete, markToCollect / GetPath, getBlockProof /
GetBlockProof) carry explicit `.panic` outcomes; the theorems below are for EVERY node shape (`WN` is the type of whatever
the import decoders can build: branches below the full key depth, values at odd depths, bare references, short nodes
under short nodes included), every key, every store content and fuel.  Negative witnesses: with any one of the fixes
812c067 / 5dc7120 / 95fe15c / 527796b reverted (Verif.Model.WmptPanic) a concrete accepted shape panics.
`serializeP` / `collectNodes` have no index or slice site (fixed 16-slot child array, `copy` into a fresh buffer): they
are total functions in Go as in the model.
-/
import Verif.Props.C15Wmpt
import Verif.Model.WmptPanic
namespace Verif.Wmpt
open Verif.Props.C15Wmpt

theorem resolveHash_no_panic (hasDb : Bool) (s : Store) (h : Bytes) : resolveHash hasDb s h ≠ .err .panic := by
  unfold resolveHash
  split
  · simp
  · split
    · simp
    · split
      · simp
      · rename_i p _
        have := deserializeNode_total p
        intro hp
        rw [hp] at this
        simp [Res.isPanic] at this

theorem resolveNode_no_panic (hasDb : Bool) (s : Store) (n : WN) : resolveNode hasDb s n ≠ .err .panic := by
  unfold resolveNode
  split
  · simp
  · split
    · exact resolveHash_no_panic _ _ _
    · simp

theorem delete_no_panic (H : Bytes → Bytes) (hasDb : Bool) (s : Store) (fuel : Nat) (n : WN) (key : List Nib) :
    (delete H hasDb s fuel n key).err ≠ some .panic := by
  fun_induction delete H hasDb s fuel n key <;> simp_all
  all_goals (intro he; subst he)
  all_goals first
    | (apply ‹¬ _›; assumption)
    | exact absurd ‹resolveNode _ _ _ = _› (resolveNode_no_panic _ _ _)
    | exact absurd ‹resolveHash _ _ _ = _› (resolveHash_no_panic _ _ _)


theorem markToCollect_no_panic (hasDb : Bool) (s : Store) (fuel : Nat) (n : WN) (key : List Nib) :
    (markToCollect hasDb s fuel n key).err ≠ some .panic := by
  fun_induction markToCollect hasDb s fuel n key
  all_goals intro he
  all_goals first
    | (cases he; done)
    | (apply ‹¬ _›; assumption)
    | (simp only [Option.some.injEq] at he; subst he; first
        | (apply ‹¬ _›; assumption)
        | exact absurd ‹resolveHash _ _ _ = _› (resolveHash_no_panic _ _ _))

theorem getBlockProof_no_panic (H : Bytes → Bytes) (hasDb : Bool) (s : Store) (fuel : Nat) (n : WN) (block : Nat) (pre : Bytes) :
    (getBlockProof H hasDb s fuel n block pre).res ≠ .err .panic := by
  fun_induction getBlockProof H hasDb s fuel n block pre <;> simp_all
  all_goals first
    | (intro he; subst he; first
        | (apply ‹¬ _›; assumption)
        | exact absurd ‹resolveHash _ _ _ = _› (resolveHash_no_panic _ _ _))
    | (intro he; split at he <;> first | (cases he; done) | (simp only [Res.err.injEq] at he; subst he; exact absurd ‹_ = Res.err Err.panic› ‹¬ _›))


end Verif.Wmpt

namespace Verif.Props.C15WmptOps
open Verif.Wmpt

/-- Delete on any accepted trie shape, any key: a value or an error, never a panic -/
theorem wmpt_delete_no_panic (H : Bytes → Bytes) (hasDb : Bool) (s : Store) (fuel : Nat) (n : WN) (key : List Nib) :
    (delete H hasDb s fuel n key).err ≠ some .panic := delete_no_panic H hasDb s fuel n key

/-- GetPath's marking walk on any accepted trie shape, any key -/
theorem wmpt_mark_no_panic (hasDb : Bool) (s : Store) (fuel : Nat) (n : WN) (key : List Nib) :
    (markToCollect hasDb s fuel n key).err ≠ some .panic := markToCollect_no_panic hasDb s fuel n key

/-- GetBlockProof's walk on any accepted trie shape, any block number -/
theorem wmpt_getBlockProof_no_panic (H : Bytes → Bytes) (hasDb : Bool) (s : Store) (fuel : Nat) (n : WN) (block : Nat)
    (pre : Bytes) : (getBlockProof H hasDb s fuel n block pre).res ≠ .err .panic :=
  getBlockProof_no_panic H hasDb s fuel n block pre

theorem hexToKeybytes_no_panic (b : Bytes) : hexToKeybytes b ≠ .err .panic := by
  fun_induction hexToKeybytes b
  · simp
  · simp
  · simp_all
  · rename_i e h ih; intro he; simp only [Res.err.injEq] at he; subst he; exact ih h

/-- `GetBlockProof(block)` (walk + key conversion, fix 95fe15c) on any trie -/
theorem wmpt_blockProof_no_panic (H : Bytes → Bytes) (t : WT) (block : Nat) : (blockProof H t block).2 ≠ .err .panic := by
  unfold blockProof
  split
  · simp
  · have h1 := getBlockProof_no_panic H t.hasDb t.store 200 t.root block []
    simp only []
    generalize getBlockProof H t.hasDb t.store 200 t.root block [] = r at h1
    cases hr : r.res with
    | ok p =>
      obtain ⟨pre, ps⟩ := p
      simp only []
      cases hk : hexToKeybytes pre with
      | ok k => simp
      | err e => simp only []; intro he; simp only [Res.err.injEq] at he; subst he; exact hexToKeybytes_no_panic _ hk
    | err e => rw [hr] at h1; cases e <;> simp_all

/-- combined statement for the single-key operations -/
theorem wmpt_accepted_no_panic (H : Bytes → Bytes) (hasDb : Bool) (s : Store) (fuel : Nat) (n : WN) (key : List Nib)
    (block : Nat) (pre : Bytes) :
    (delete H hasDb s fuel n key).err ≠ some .panic ∧ (markToCollect hasDb s fuel n key).err ≠ some .panic ∧
    (getBlockProof H hasDb s fuel n block pre).res ≠ .err .panic :=
  ⟨delete_no_panic H hasDb s fuel n key, markToCollect_no_panic hasDb s fuel n key, getBlockProof_no_panic H hasDb s fuel n block pre⟩

/-! ### Negative witnesses: one fix reverted, a shape the import decoders accept -/

/-- a branch below the full key depth: short node with the full 2-nibble key over a branch -/
def deepBranch : WN := .short [1, 2] [] (.routing [] noCh 0 false false) false false

/-- 812c067 reverted: Delete indexes `key[0]` of the exhausted key -/
theorem delete_old_panics :
    (deleteOld (fun b => b) false [] 10 (.routing [] (upd noCh 1 (.routing [] noCh 0 false false)) 0 false false) [1]).err
      = some .panic := by
  simp [deleteOld, upd]

theorem delete_fixed_witness :
    (delete (fun b => b) false [] 10 (.routing [] (upd noCh 1 (.routing [] noCh 0 false false)) 0 false false) [1]).err
      = some .notFound := by
  simp [delete, upd]

/-- 812c067 reverted: GetPath's marking walk indexes `key[pos]` past the end -/
theorem mark_old_panics : (markToCollectOld false [] 10 deepBranch [1, 2]).err = some .panic := by
  simp [deepBranch, markToCollectOld, nb]

theorem mark_fixed_witness : (markToCollect false [] 10 deepBranch [1, 2]).err = none := by
  simp [deepBranch, markToCollect, nb]

/-- 5dc7120 reverted: Update with a key that ends inside a short node's key (the node reaches below the key depth) -/
theorem insert_old_panics :
    (insertOld false [] 10 (.short [1, 2, 3] [] (.value [] [7] 1 false) false false) [1, 2] (.value [] [9] 1 true)).err
      = some .panic := by
  simp [insertOld, commonPrefix, nb]

theorem insert_fixed_witness :
    (insert false [] 10 (.short [1, 2, 3] [] (.value [] [7] 1 false) false false) [1, 2] (.value [] [9] 1 true)).err
      = some .invalidKey := by
  simp [Verif.Wmpt.insert, commonPrefix, nb]

/-- 95fe15c reverted: a value at an odd nibble depth -/
theorem hexToKeybytes_old_panics : hexToKeybytesOld [1, 2, 3] = .err .panic := by decide

theorem hexToKeybytes_fixed_witness : hexToKeybytes [1, 2, 3] = .err .invalidKey := by decide

/-- 527796b reverted: a storage-less trie whose root is a reference (the import of an export of no keys) -/
theorem getPath_old_panics : getPathRootOld { root := .hashRef [1] 0, hasDb := false } = .err .panic := by
  simp [getPathRootOld]

end Verif.Props.C15WmptOps
