/-
C15 (weighted-trie half, operations on an ACCEPTED import) — "anything the decoders accept is processed without panic".

The operation models of Verif.Model.WmptOps / WmptProof (insert, delete, markToCollect / GetPath, getBlockProof /
GetBlockProof) carry explicit `.panic` outcomes; the theorems below are for EVERY node shape (`WN` is the type of whatever
the import decoders can build: branches below the full key depth, values at odd depths, bare references, short nodes
under short nodes included), every key, every store content and fuel.  Negative witnesses: with any one of the fixes
812c067 / 5dc7120 / 95fe15c / 527796b reverted (Verif.Model.WmptPanic) a concrete accepted shape panics.
`serializeP` / `collectNodes` have no index or slice site (fixed 16-slot child array, `copy` into a fresh buffer): they
are total functions in Go as in the model.
-/
import Verif.Props.C15Wmpt
import Verif.Model.WmptPanic
namespace Verif.Wmpt
open Verif.Props.C15Wmpt

theorem resolveHash_no_panic (hasDb : Bool) (s : Store) (h : Bytes) : resolveHash hasDb s h ≠ .err .panic := by
  unfold resolveHash
  split
  · simp
  · split
    · simp
    · split
      · simp
      · rename_i p _
        have := deserializeNode_total p
        intro hp
        rw [hp] at this
        simp [Res.isPanic] at this

theorem resolveNode_no_panic (hasDb : Bool) (s : Store) (n : WN) : resolveNode hasDb s n ≠ .err .panic := by
  unfold resolveNode
  split
  · simp
  · split
    · exact resolveHash_no_panic _ _ _
    · simp

theorem delete_no_panic (H : Bytes → Bytes) (hasDb : Bool) (s : Store) (fuel : Nat) (n : WN) (key : List Nib) :
    (delete H hasDb s fuel n key).err ≠ some .panic := by
  fun_induction delete H hasDb s fuel n key <;> simp_all
  all_goals (intro he; subst he)
  all_goals first
    | (apply ‹¬ _›; assumption)
    | exact absurd ‹resolveNode _ _ _ = _› (resolveNode_no_panic _ _ _)
    | exact absurd ‹resolveHash _ _ _ = _› (resolveHash_no_panic _ _ _)


theorem markToCollect_no_panic (hasDb : Bool) (s : Store) (fuel : Nat) (n : WN) (key : List Nib) :
    (markToCollect hasDb s fuel n key).err ≠ some .panic := by
  fun_induction markToCollect hasDb s fuel n key
  all_goals intro he
  all_goals first
    | (cases he; done)
    | (apply ‹¬ _›; assumption)
    | (simp only [Option.some.injEq] at he; subst he; first
        | (apply ‹¬ _›; assumption)
        | exact absurd ‹resolveHash _ _ _ = _› (resolveHash_no_panic _ _ _))

theorem getBlockProof_no_panic (H : Bytes → Bytes) (hasDb : Bool) (s : Store) (fuel : Nat) (n : WN) (block : Nat) (pre : Bytes) :
    (getBlockProof H hasDb s fuel n block pre).res ≠ .err .panic := by
  fun_induction getBlockProof H hasDb s fuel n block pre <;> simp_all
  all_goals first
    | (intro he; subst he; first
        | (apply ‹¬ _›; assumption)
        | exact absurd ‹resolveHash _ _ _ = _› (resolveHash_no_panic _ _ _))
    | (intro he; split at he <;> first | (cases he; done) | (simp only [Res.err.injEq] at he; subst he; exact absurd ‹_ = Res.err Err.panic› ‹¬ _›))



/-- every short-node key in the tree consists of nibbles (what `DeserializeNode` checks since f270208) -/
def NibKeys : WN → Prop
  | .short k _ c _ _ => isNibbles k = true ∧ NibKeys c
  | .routing _ ch _ _ _ => ∀ i, NibKeys (ch i)
  | _ => True

theorem nibKeys_deserializeChild (c : Bytes) (n : WN) (h : deserializeChild c = .ok (some n)) : NibKeys n := by
  unfold deserializeChild at h
  repeat' (split at h)
  all_goals first
    | (simp at h; done)
    | (simp only [Res.ok.injEq, Option.some.injEq] at h; subst h; simp_all [NibKeys])

theorem nibKeys_deserializeChildren (cs : List Bytes) (ns : List WN) (w : Nat)
    (h : deserializeChildren cs = .ok (ns, w)) : ∀ n ∈ ns, NibKeys n := by
  induction cs generalizing ns w with
  | nil => simp [deserializeChildren] at h; intro n hn; rw [h.1] at hn; cases hn
  | cons c rest ih =>
    simp only [deserializeChildren] at h
    split at h
    · simp at h
    · rename_i o ho
      split at h
      · simp at h
      · rename_i ns' w' hr
        split at h
        · rename_i node
          simp only [Res.ok.injEq, Prod.mk.injEq] at h
          intro n hn; rw [← h.1] at hn
          rcases List.mem_cons.mp hn with rfl | hn
          · exact nibKeys_deserializeChild c _ ho
          · exact ih ns' w' hr n hn
        · simp only [Res.ok.injEq, Prod.mk.injEq] at h
          intro n hn; rw [← h.1] at hn
          rcases List.mem_cons.mp hn with rfl | hn
          · simp [NibKeys]
          · exact ih ns' w' hr n hn

theorem nibKeys_ofList (ns : List WN) (h : ∀ n ∈ ns, NibKeys n) (i : Nib) : NibKeys (ofList ns i) := by
  unfold ofList
  by_cases hi : i.val < ns.length
  · simp only [List.getD, List.getElem?_eq_getElem hi, Option.getD_some]; exact h _ (List.getElem_mem hi)
  · simp only [List.getD, List.getElem?_eq_none (by omega : ns.length ≤ i.val), Option.getD_none]; simp [NibKeys]

theorem nibKeys_deserializeNode (p : PBase) (n : WN) (h : deserializeNode p = .ok n) : NibKeys n := by
  unfold deserializeNode at h
  repeat' (split at h)
  all_goals first
    | (simp at h; done)
    | (simp only [Res.ok.injEq] at h; subst h; simp_all [NibKeys]; done)
    | (simp only [Res.ok.injEq] at h; subst h; intro i; exact nibKeys_ofList _ (nibKeys_deserializeChildren _ _ _ ‹_›) i)

theorem nibKeys_resolveHash (hasDb : Bool) (s : Store) (h : Bytes) (n : WN) (hr : resolveHash hasDb s h = .ok n) :
    NibKeys n := by
  unfold resolveHash at hr
  repeat' (split at hr)
  all_goals first
    | (simp at hr; done)
    | exact nibKeys_deserializeNode _ _ hr


theorem commonPrefix_le (a b : Bytes) : commonPrefix a b ≤ a.length ∧ commonPrefix a b ≤ b.length := by
  induction a generalizing b with
  | nil => cases b <;> simp [commonPrefix]
  | cons x a ih =>
    cases b with
    | nil => simp [commonPrefix]
    | cons y b =>
      simp only [commonPrefix]
      split
      · have := ih b; simp; omega
      · simp

theorem nibOf_of_isNibbles (k : Bytes) (h : isNibbles k = true) (p : Nat) (hp : p < k.length) :
    ∃ i, nibOf (k.getD p 0) = some i := by
  have hx : (k[p]).toNat < 16 := by
    have := List.all_eq_true.mp h (k[p]) (List.getElem_mem hp)
    simpa using this
  refine ⟨⟨(k[p]).toNat, hx⟩, ?_⟩
  simp [List.getD, List.getElem?_eq_getElem hp, nibOf, hx]

theorem resolveOrSelf_no_panic (hasDb : Bool) (s : Store) (node : WN) :
    (match node with | .hashRef h _ => resolveHash hasDb s h | n => Res.ok n) ≠ .err .panic := by
  split
  · exact resolveHash_no_panic _ _ _
  · simp

theorem resolveOrSelf_nibKeys (hasDb : Bool) (s : Store) (node n : WN) (hn : NibKeys node)
    (h : (match node with | .hashRef h _ => resolveHash hasDb s h | n => Res.ok n) = .ok n) : NibKeys n := by
  split at h
  · exact nibKeys_resolveHash _ _ _ _ h
  · simp only [Res.ok.injEq] at h; subst h; exact hn

theorem insert_no_panic (hasDb : Bool) (s : Store) (fuel : Nat) (node : WN) (key : List Nib) (vh vv : Bytes) (vw : Nat)
    (vd : Bool) (hn : NibKeys node) :
    (insert hasDb s fuel node key (.value vh vv vw vd)).err ≠ some .panic := by
  generalize hv : WN.value vh vv vw vd = value
  revert hn
  fun_induction insert hasDb s fuel node key value
  all_goals intro hn he
  all_goals try simp only [] at he
  all_goals try simp only [NibKeys] at hn
  all_goals first
    | (cases he; done)
    | (subst hv; exact (by assumption : ∀ (hash nv : Bytes) (nw : Nat) (dirty : Bool), WN.value vh vv vw vd = WN.value hash nv nw dirty → False) _ _ _ _ rfl)
    | (simp only [Option.some.injEq] at he; subst he; first
        | exact absurd ‹_ = Res.err Err.panic› (resolveOrSelf_no_panic _ _ _)
        | exact absurd ‹resolveHash _ _ _ = Res.err Err.panic› (resolveHash_no_panic _ _ _)
        | solve_by_elim [nibKeys_resolveHash, And.right])
    | solve_by_elim [nibKeys_resolveHash, And.right]
    | skip
  case case15 =>
    rename_i fuel k ks value key h c d tc kb p hne1 hne2 x
    have hp := commonPrefix_le key kb
    have hkb : kb.length = (k :: ks).length := by simp [kb]
    have h1 : p < key.length := by have := hp.1; omega
    have h2 : p < (k :: ks).length := by have := hp.2; omega
    obtain ⟨i1, hi1⟩ := nibOf_of_isNibbles key hn.1 p h1
    exact x i1 ((k :: ks)[p]) hi1 (List.getElem?_eq_getElem h2)


theorem markKids_no_panic (hasDb : Bool) (s : Store) (ch : Nib → WN) (keys : List (List Nib))
    (hk : ∀ k ∈ keys, k ≠ []) : (markKids hasDb s ch keys).2 ≠ some .panic := by
  induction keys generalizing ch with
  | nil => simp [markKids]
  | cons k rest ih =>
    cases k with
    | nil => exact absurd rfl (hk [] (by simp))
    | cons x ks =>
      simp only [markKids]
      have hm := markToCollect_no_panic hasDb s (fuelFor (x :: ks) - 1) (ch x) ks
      split
      · rename_i e he; intro hp; simp only [Option.some.injEq] at hp; subst hp; exact hm he
      · exact ih _ (fun k' hk' => hk k' (List.mem_cons_of_mem _ hk'))

theorem markAll_no_panic (hasDb : Bool) (s : Store) (n : WN) (keys : List (List Nib)) :
    (markAll hasDb s n keys).err ≠ some .panic := by
  induction keys generalizing n with
  | nil => simp [markAll]
  | cons k rest ih =>
    simp only [markAll]
    have hm := markToCollect_no_panic hasDb s (fuelFor k) n k
    split
    · rename_i e he; intro hp; simp only [Option.some.injEq] at hp; subst hp; exact hm he
    · exact ih _

theorem hashCost_setClean (n : WN) : hashCost (setClean n) = 0 := by cases n <;> simp [setClean, hashCost]

theorem hashCost_deserializeChild (c : Bytes) (n : WN) (h : deserializeChild c = .ok (some n)) : hashCost n = 0 := by
  unfold deserializeChild at h
  repeat' (split at h)
  all_goals first
    | (simp at h; done)
    | (simp only [Res.ok.injEq, Option.some.injEq] at h; subst h; simp [hashCost])

theorem hashCost_deserializeChildren (cs : List Bytes) (ns : List WN) (w : Nat)
    (h : deserializeChildren cs = .ok (ns, w)) : ∀ n ∈ ns, hashCost n = 0 := by
  induction cs generalizing ns w with
  | nil => simp [deserializeChildren] at h; intro n hn; rw [h.1] at hn; cases hn
  | cons c rest ih =>
    simp only [deserializeChildren] at h
    split at h
    · simp at h
    · rename_i o ho
      split at h
      · simp at h
      · rename_i ns' w' hr
        split at h
        · simp only [Res.ok.injEq, Prod.mk.injEq] at h
          intro n hn; rw [← h.1] at hn
          rcases List.mem_cons.mp hn with rfl | hn
          · exact hashCost_deserializeChild c _ ho
          · exact ih ns' w' hr n hn
        · simp only [Res.ok.injEq, Prod.mk.injEq] at h
          intro n hn; rw [← h.1] at hn
          rcases List.mem_cons.mp hn with rfl | hn
          · simp [hashCost]
          · exact ih ns' w' hr n hn

theorem hashCost_ofList (ns : List WN) (h : ∀ n ∈ ns, hashCost n = 0) (i : Nib) : hashCost (ofList ns i) = 0 := by
  unfold ofList
  by_cases hi : i.val < ns.length
  · simp only [List.getD, List.getElem?_eq_getElem hi, Option.getD_some]; exact h _ (List.getElem_mem hi)
  · simp only [List.getD, List.getElem?_eq_none (by omega : ns.length ≤ i.val), Option.getD_none]; simp [hashCost]

/-- the children of a freshly decoded branch are clean -/
theorem hashCost_children_deserializeNode (p : PBase) (h : Bytes) (ch : Nib → WN) (w : Nat) (d tc : Bool)
    (hd : deserializeNode p = .ok (.routing h ch w d tc)) : ∀ i, hashCost (ch i) = 0 := by
  unfold deserializeNode at hd
  repeat' (split at hd)
  all_goals first
    | (simp at hd; done)
    | (simp only [Res.ok.injEq, WN.routing.injEq] at hd
       obtain ⟨_, rfl, _⟩ := hd
       intro i; exact hashCost_ofList _ (hashCost_deserializeChildren _ _ _ ‹_›) i)

theorem sum_zero_of_all_zero (l : List Nat) (h : ∀ x ∈ l, x = 0) : l.sum = 0 := by
  induction l with
  | nil => rfl
  | cons a l ih => simp [h a (by simp), ih (fun x hx => h x (List.mem_cons_of_mem _ hx))]

/-- with the fix, verifying a proof costs one hash per proof element consumed: linear -/
theorem verifyCost_linear (ps : List PairD) (block : Nat) (n : WN) (k : Nat)
    (h : verifyCost true ps block = some (n, k)) : k ≤ ps.length ∧ hashCost n = 0 := by
  induction ps generalizing block n k with
  | nil => simp [verifyCost] at h
  | cons q rest ih =>
    cases q with
    | nilPair => simp [verifyCost] at h
    | bad => simp [verifyCost] at h
    | ok p =>
      simp only [verifyCost] at h
      split at h
      · simp at h
      · rename_i nd hd
        split at h
        · rename_i hh ch w d tc
          split at h
          · simp at h
          · rename_i i b' hp
            split at h
            · simp at h
            · rename_i c k' hr
              simp only [if_true, Option.some.injEq, Prod.mk.injEq] at h
              obtain ⟨hc1, hc2⟩ := ih b' c k' hr
              have hch := hashCost_children_deserializeNode p hh ch w d tc hd
              have hs : (allNib.map (fun j => hashCost (upd ch i c j))).sum = 0 := by
                apply sum_zero_of_all_zero
                intro x hx
                obtain ⟨j, _, rfl⟩ := List.mem_map.mp hx
                by_cases hj : j = i <;> simp [upd, hj, hc2, hch]
              refine ⟨?_, by rw [← h.1]; exact hashCost_setClean _⟩
              rw [← h.2]; simp only [hashCost, if_true, hs, List.length_cons]; omega
        · rename_i kk hh c d tc
          split at h
          · simp at h
          · split at h
            · simp at h
            · rename_i c' k' hr
              simp only [if_true, Option.some.injEq, Prod.mk.injEq] at h
              obtain ⟨hc1, hc2⟩ := ih block c' k' hr
              refine ⟨?_, by rw [← h.1]; exact hashCost_setClean _⟩
              rw [← h.2]; simp only [hashCost, if_true, hc2, List.length_cons]; omega
        · split at h
          · simp at h
          · simp only [if_true, Option.some.injEq, Prod.mk.injEq] at h
            refine ⟨?_, by rw [← h.1]; exact hashCost_setClean _⟩
            rw [← h.2]; simp [hashCost]
        · simp at h


/-- before 75bbdaf (flag kept) every level hashes everything below it again: 4 + 3 + 2 + 1 = 10 hash computations for
    4 elements (n(n+1)/2); with the fix: 4 -/
theorem verifyCost_old_quadratic_witness :
    (verifyCost false chainProof 1).map (·.2) = some 10 ∧ (verifyCost true chainProof 1).map (·.2) = some 4 := by
  decide

end Verif.Wmpt

namespace Verif.Props.C15WmptOps
open Verif.Wmpt

def deepBranchEx : WN := .short [1, 2] [] (.routing [] noCh 0 false false) false false

/-- Delete on any accepted trie shape, any key: a value or an error, never a panic -/
theorem wmpt_delete_no_panic (H : Bytes → Bytes) (hasDb : Bool) (s : Store) (fuel : Nat) (n : WN) (key : List Nib) :
    (delete H hasDb s fuel n key).err ≠ some .panic := delete_no_panic H hasDb s fuel n key

/-- GetPath's marking walk on any accepted trie shape, any key -/
theorem wmpt_mark_no_panic (hasDb : Bool) (s : Store) (fuel : Nat) (n : WN) (key : List Nib) :
    (markToCollect hasDb s fuel n key).err ≠ some .panic := markToCollect_no_panic hasDb s fuel n key

/-- GetBlockProof's walk on any accepted trie shape, any block number -/
theorem wmpt_getBlockProof_no_panic (H : Bytes → Bytes) (hasDb : Bool) (s : Store) (fuel : Nat) (n : WN) (block : Nat)
    (pre : Bytes) : (getBlockProof H hasDb s fuel n block pre).res ≠ .err .panic :=
  getBlockProof_no_panic H hasDb s fuel n block pre

theorem hexToKeybytes_no_panic (b : Bytes) : hexToKeybytes b ≠ .err .panic := by
  fun_induction hexToKeybytes b
  · simp
  · simp
  · simp_all
  · rename_i e h ih; intro he; simp only [Res.err.injEq] at he; subst he; exact ih h

/-- `GetBlockProof(block)` (walk + key conversion, fix 95fe15c) on any trie -/
theorem wmpt_blockProof_no_panic (H : Bytes → Bytes) (t : WT) (block : Nat) : (blockProof H t block).2 ≠ .err .panic := by
  unfold blockProof
  split
  · simp
  · have h1 := getBlockProof_no_panic H t.hasDb t.store 200 t.root block []
    simp only []
    generalize getBlockProof H t.hasDb t.store 200 t.root block [] = r at h1
    cases hr : r.res with
    | ok p =>
      obtain ⟨pre, ps⟩ := p
      simp only []
      cases hk : hexToKeybytes pre with
      | ok k => simp
      | err e => simp only []; intro he; simp only [Res.err.injEq] at he; subst he; exact hexToKeybytes_no_panic _ hk
    | err e => rw [hr] at h1; cases e <;> simp_all

/-- Update's walk (`insert` with the two ErrInvalidKey guards of 5dc7120) with a value node, on any trie whose short keys
    are nibbles (`NibKeys`: what `DeserializeNode` guarantees since f270208 — `nibKeys_deserializeNode`; every node loaded
    from storage has it — `nibKeys_resolveHash`), any key, store and fuel: a value or an error, never a panic -/
theorem wmpt_insert_no_panic (hasDb : Bool) (s : Store) (fuel : Nat) (n : WN) (key : List Nib) (vh vv : Bytes) (vw : Nat)
    (vd : Bool) (hn : NibKeys n) : (insert hasDb s fuel n key (.value vh vv vw vd)).err ≠ some .panic :=
  insert_no_panic hasDb s fuel n key vh vv vw vd hn

/-- non-vacuity of `NibKeys`: a short node over a branch below the key depth -/
example : NibKeys deepBranchEx := by simp [deepBranchEx, NibKeys, isNibbles, noCh]

/-- GetPath's marking, sequential strategy: any keys -/
theorem wmpt_markAll_no_panic (hasDb : Bool) (s : Store) (n : WN) (keys : List (List Nib)) :
    (markAll hasDb s n keys).err ≠ some .panic := markAll_no_panic hasDb s n keys

/-- GetPath's marking, parallel strategy (branch root, more than `pathParallelThreshold` keys), under the declared
    precondition that keys are non-empty (wmpt keys are 32 bytes = 64 nibbles) -/
theorem wmpt_markParallel_no_panic (hasDb : Bool) (s : Store) (n : WN) (keys : List (List Nib))
    (hk : ∀ k ∈ keys, k ≠ []) : (markParallel hasDb s n keys).err ≠ some .panic := by
  cases n with
  | routing h ch w d tc => simpa [markParallel] using markKids_no_panic hasDb s ch keys hk
  | nil => simpa [markParallel] using markAll_no_panic hasDb s _ keys
  | empty => simpa [markParallel] using markAll_no_panic hasDb s _ keys
  | hashRef h w => simpa [markParallel] using markAll_no_panic hasDb s _ keys
  | value h v w d => simpa [markParallel] using markAll_no_panic hasDb s _ keys
  | short k h c d tc => simpa [markParallel] using markAll_no_panic hasDb s _ keys

/-- the precondition is needed: an EMPTY caller key in the parallel strategy indexes `k[0]` (a caller error, not an
    import defect) -/
theorem markParallel_empty_key_panics :
    (markParallel false [] (.routing [] noCh 0 false false) [[]]).err = some .panic := by
  simp [markParallel, markKids]

/-- combined statement for the single-key operations -/
theorem wmpt_accepted_no_panic (H : Bytes → Bytes) (hasDb : Bool) (s : Store) (fuel : Nat) (n : WN) (key : List Nib)
    (block : Nat) (pre : Bytes) :
    (delete H hasDb s fuel n key).err ≠ some .panic ∧ (markToCollect hasDb s fuel n key).err ≠ some .panic ∧
    (getBlockProof H hasDb s fuel n block pre).res ≠ .err .panic ∧
    (NibKeys n → ∀ vh vv vw vd, (insert hasDb s fuel n key (.value vh vv vw vd)).err ≠ some .panic) :=
  ⟨delete_no_panic H hasDb s fuel n key, markToCollect_no_panic hasDb s fuel n key, getBlockProof_no_panic H hasDb s fuel n block pre,
    fun hn vh vv vw vd => insert_no_panic hasDb s fuel n key vh vv vw vd hn⟩

/-! ### Negative witnesses: one fix reverted, a shape the import decoders accept -/

/-- a branch below the full key depth: short node with the full 2-nibble key over a branch -/
def deepBranch : WN := .short [1, 2] [] (.routing [] noCh 0 false false) false false

/-- 812c067 reverted: Delete indexes `key[0]` of the exhausted key -/
theorem delete_old_panics :
    (deleteOld (fun b => b) false [] 10 (.routing [] (upd noCh 1 (.routing [] noCh 0 false false)) 0 false false) [1]).err
      = some .panic := by
  simp [deleteOld, upd]

theorem delete_fixed_witness :
    (delete (fun b => b) false [] 10 (.routing [] (upd noCh 1 (.routing [] noCh 0 false false)) 0 false false) [1]).err
      = some .notFound := by
  simp [delete, upd]

/-- 812c067 reverted: GetPath's marking walk indexes `key[pos]` past the end -/
theorem mark_old_panics : (markToCollectOld false [] 10 deepBranch [1, 2]).err = some .panic := by
  simp [deepBranch, markToCollectOld, nb]

theorem mark_fixed_witness : (markToCollect false [] 10 deepBranch [1, 2]).err = none := by
  simp [deepBranch, markToCollect, nb]

/-- 5dc7120 reverted: Update with a key that ends inside a short node's key (the node reaches below the key depth) -/
theorem insert_old_panics :
    (insertOld false [] 10 (.short [1, 2, 3] [] (.value [] [7] 1 false) false false) [1, 2] (.value [] [9] 1 true)).err
      = some .panic := by
  simp [insertOld, commonPrefix, nb]

theorem insert_fixed_witness :
    (insert false [] 10 (.short [1, 2, 3] [] (.value [] [7] 1 false) false false) [1, 2] (.value [] [9] 1 true)).err
      = some .invalidKey := by
  simp [Verif.Wmpt.insert, commonPrefix, nb]

/-- 95fe15c reverted: a value at an odd nibble depth -/
theorem hexToKeybytes_old_panics : hexToKeybytesOld [1, 2, 3] = .err .panic := by decide

theorem hexToKeybytes_fixed_witness : hexToKeybytes [1, 2, 3] = .err .invalidKey := by decide

/-- 527796b reverted: a storage-less trie whose root is a reference (the import of an export of no keys) -/
theorem getPath_old_panics : getPathRootOld { root := .hashRef [1] 0, hasDb := false } = .err .panic := by
  simp [getPathRootOld]

/-! ### "promptly": VerifyBlockProof is linear in the number of proof elements (fix 75bbdaf) -/

/-- with the fix, the number of hash computations of `verifyProof` is at most the number of proof elements (c = 1, c' = 0),
    and the rebuilt node is clean.  (`verifyCost` counts over shapes and dirty flags only; the cost of one hash is
    linear in the element's size.) -/
theorem wmpt_verify_steps_linear (ps : List PairD) (block : Nat) (n : WN) (k : Nat)
    (h : verifyCost true ps block = some (n, k)) : k ≤ ps.length := (verifyCost_linear ps block n k h).1

/-- non-vacuity and contrast: the 4-element chain costs 4 with the fix and 10 = 4·5/2 before it -/
theorem wmpt_verify_old_quadratic : (verifyCost false chainProof 1).map (·.2) = some 10 ∧
    (verifyCost true chainProof 1).map (·.2) = some 4 := verifyCost_old_quadratic_witness

end Verif.Props.C15WmptOps
