import Verif.Gen.Currency
import Verif.Model.CurrencySpec
import Verif.Lemmas.C18
import Verif.Lemmas.F64
import Verif.Lemmas.Zcn
import Verif.Lemmas.Msgp
/-! # C18 — currency arithmetic is exact or fails loudly

Three layers:

* `Verif/Model/CurrencySpec.lean` — the hand-written specification: one canonical definition per function, the exact
  result in ℕ/ℤ when it is representable and the function's error otherwise; independent of the Go source.
* `Verif/Gen/Currency.lean` — REGENERATED from `core/currency/currency.go` by `go/xlate` before every build.
* this file — the bridge theorems `Gen.f = Spec.f` (`addCoin_spec`, …: what the Go source says now IS the
  specification), and the property theorems, proved once about the specification and transferred.

The bridge theorems are proved by shape-independent tactics (`bridge_int`, `bridge_f64`, `bridge_dec` in
`Verif/Lemmas`): unfold everything (including unexported Go helpers, via the generated `go_unfold_helpers`), split every
conditional and call result on both sides, turn the path conditions of each leaf into linear arithmetic / facts about
the decoded float / facts about `coeff·10^exp`, and decide. They do not look at how the Go function is written, so a
behaviour-preserving rewrite (other overflow idiom, `math/bits`, reordered guards, `switch`, extracted helpers,
renamed variables, explicit instead of named results) leaves them intact, while any change of behaviour makes a leaf
unprovable. -/
set_option linter.unusedSimpArgs false
namespace Verif.Props.C18
open Verif.GoSem Verif.F64 Verif.Dec Verif.Gen Verif.Gen.Currency Verif.Lemmas.C18 Verif.Lemmas.F64 Verif.Lemmas.Zcn
open Verif.Msgp Verif.Lemmas.Msgp
open Verif.Spec.Currency (Errs amount maxInt64 parseDec)

/-- the generated error values, as the error parameter of the specification -/
def genErrs : Errs ErrKind where
  negativeValue := .ErrNegativeValue
  tooManyDecimals := .ErrTooManyDecimals
  tooLarge := .ErrTooLarge
  multOverflow := .ErrUint64MultOverflow
  addOverflow := .ErrUint64AddOverflow
  minusOverflow := .ErrUint64MinusOverflow
  overflowsInt64 := .ErrUint64OverflowsInt64
  int64Underflows := .ErrInt64UnderflowsUint64
  float64Underflows := .ErrFloat64UnderflowsUint64
  notANumber := .ErrNotANumber
  divideByZero := .ErrDivideByZero

/-- the messages of the generated error values are the ones the specification (and the model driver) uses -/
theorem error_messages :
    (Verif.Spec.Currency.msgErrs.negativeValue, Verif.Spec.Currency.msgErrs.tooManyDecimals, Verif.Spec.Currency.msgErrs.tooLarge,
     Verif.Spec.Currency.msgErrs.multOverflow, Verif.Spec.Currency.msgErrs.addOverflow, Verif.Spec.Currency.msgErrs.minusOverflow,
     Verif.Spec.Currency.msgErrs.overflowsInt64, Verif.Spec.Currency.msgErrs.int64Underflows,
     Verif.Spec.Currency.msgErrs.float64Underflows, Verif.Spec.Currency.msgErrs.notANumber, Verif.Spec.Currency.msgErrs.divideByZero) =
    (genErrs.negativeValue.msg, genErrs.tooManyDecimals.msg, genErrs.tooLarge.msg, genErrs.multOverflow.msg,
     genErrs.addOverflow.msg, genErrs.minusOverflow.msg, genErrs.overflowsInt64.msg, genErrs.int64Underflows.msg,
     genErrs.float64Underflows.msg, genErrs.notANumber.msg, genErrs.divideByZero.msg) := rfl

/-- every function of currency.go was translated -/
theorem all_translated : untranslated = [] := by decide

/-- pins the exported API: a new exported function needs a specification and a bridge theorem here
    (unexported helpers may come and go) -/
theorem exported_functions : exportedFunctions =
    ["AddCoin", "AddInt64", "Coin_Float64", "Coin_Int64", "Coin_ToZCN", "DistributeCoin", "Float64ToCoin",
     "Int64ToCoin", "Min", "MinusCoin", "MinusInt64", "MultCoin", "MultFloat64", "ParseZCN"] := by decide

/-- unfold the named generated definitions (plus unexported helpers and package variables, through the generated
    `go_unfold_helpers`) and the specification; push call continuations into conditionals -/
syntax "unfold_both" "[" Lean.Parser.Tactic.simpLemma,* "]" : tactic
macro_rules
  | `(tactic| unfold_both [$ls,*]) =>
    `(tactic| (
      simp only [$ls,*, Res.andThen,
        Verif.Spec.Currency.addCoin, Verif.Spec.Currency.multCoin, Verif.Spec.Currency.minusCoin,
        Verif.Spec.Currency.addInt64, Verif.Spec.Currency.minusInt64, Verif.Spec.Currency.distributeCoin,
        Verif.Spec.Currency.int64ToCoin, Verif.Spec.Currency.coinInt64, Verif.Spec.Currency.min, genErrs]
      go_unfold_helpers
      try simp only [$ls,*, Res.andThen]
      try simp only [Res.elim_ite, Res.elim_ok, Res.elim_err, Res.elim_panic]))

/-! ## bridges: integer helpers -/

theorem addCoin_spec (a b : Coin) : AddCoin a b = Verif.Spec.Currency.addCoin genErrs a b := by
  unfold_both [AddCoin]; bridge_int
theorem multCoin_spec (a b : Coin) : MultCoin a b = Verif.Spec.Currency.multCoin genErrs a b := by
  unfold_both [MultCoin]; bridge_int
theorem minusCoin_spec (a b : Coin) : MinusCoin a b = Verif.Spec.Currency.minusCoin genErrs a b := by
  unfold_both [MinusCoin]; bridge_int
theorem int64ToCoin_spec (a : I64) : Int64ToCoin a = Verif.Spec.Currency.int64ToCoin genErrs a := by
  unfold_both [Int64ToCoin]; bridge_int
theorem coinInt64_spec (c : Coin) : Coin_Int64 c = Verif.Spec.Currency.coinInt64 genErrs c := by
  unfold_both [Coin_Int64]; bridge_int
theorem addInt64_spec (c : Coin) (a : I64) : AddInt64 c a = Verif.Spec.Currency.addInt64 genErrs c a := by
  unfold_both [AddInt64, Int64ToCoin, AddCoin]; bridge_int
theorem minusInt64_spec (c : Coin) (a : I64) : MinusInt64 c a = Verif.Spec.Currency.minusInt64 genErrs c a := by
  unfold_both [MinusInt64, Int64ToCoin, MinusCoin]; bridge_int
theorem distribute_spec (c : Coin) (a : I64) :
    DistributeCoin c a = Verif.Spec.Currency.distributeCoin genErrs c a := by
  unfold_both [DistributeCoin, Int64ToCoin]; bridge_int
theorem min_spec (a b : Coin) : Currency.Min a b = Verif.Spec.Currency.min a b := by
  unfold_both [Currency.Min]; bridge_int

/-! ## bridges: float helpers

Floats are the binary64 model `Verif/Model/F64.lean` (value = `(-1)^neg · m · 2^e`, operations = exact result rounded
to nearest-even, comparisons IEEE); the model is pinned to the compiled Go arithmetic by the correspondence run. -/

theorem float64ToCoin_spec (x : F64) : Float64ToCoin x = Verif.Spec.Currency.float64ToCoin genErrs x := by
  simp only [Float64ToCoin, Verif.Spec.Currency.float64ToCoin, genErrs]
  go_unfold_helpers
  bridge_f64 x

/-- the `ErrUint64OverflowsFloat64` branch is dead: the product of two values that are not below zero is not below
    zero; what remains is `Float64ToCoin` of the IEEE product -/
theorem multFloat64_spec (c : Coin) (a : F64) : MultFloat64 c a = Verif.Spec.Currency.multFloat64 genErrs c a := by
  simp only [MultFloat64, Verif.Spec.Currency.multFloat64, Verif.Spec.Currency.fzero]
  go_unfold_helpers
  try simp only [float64ToCoin_spec]
  (repeat' split) <;> first
    | rfl
    | (exfalso; simp_all [mul_not_lt_zero, ofUInt64_not_lt_zero]; done)
    | (simp_all [mul_not_lt_zero, ofUInt64_not_lt_zero, genErrs]; done)

/-- `Coin.Float64` never fails: its error branch is dead (`float64(c)` is never below zero) -/
theorem coinFloat64_spec (c : Coin) : Coin_Float64 c = Verif.Spec.Currency.coinFloat64 c := by
  simp only [Coin_Float64, Verif.Spec.Currency.coinFloat64]
  go_unfold_helpers
  (repeat' split) <;> first
    | rfl
    | (exfalso; simp_all [ofUInt64_not_lt_zero]; done)
    | (simp_all [ofUInt64_not_lt_zero, F64.ofUInt64]; done)

/-! ## bridges: ZCN amounts (shopspring/decimal)

`decimal.NewFromFloat(x)` is not modelled: the generated `ParseZCN` takes the decimal the library returned as its
second argument (after an explicit `.panic` where the library panics). -/

theorem parseZCN_spec (x : F64) (d : Dec) : ParseZCN x d = Verif.Spec.Currency.parseZCN genErrs x d := by
  simp only [ParseZCN, Verif.Spec.Currency.parseZCN, Verif.Spec.Currency.parseDec, genErrs]
  go_unfold_helpers
  cases hv : F64.val x with
  | nan => f64_norm hv
  | inf s => cases s <;> f64_norm hv
  | fin s m e =>
    f64_norm hv
    bridge_dec

theorem toZCN_spec (c : Coin) : Coin_ToZCN c = Verif.Spec.Currency.toZCN genErrs c := by
  simp only [Coin_ToZCN, Verif.Spec.Currency.toZCN, genErrs]
  go_unfold_helpers
  (repeat' split) <;> first
    | rfl
    | (exfalso; int_norm; omega)
    | (rw [float64_new_neg10 c (by int_norm; omega)])

/-- no trailing zero in the coefficient; zero is `0·10^0` (what `decimal.NewFromFloat` returns) -/
def Dec.normal (d : Dec) : Prop := d.coeff % 10 ≠ 0 ∨ d = ⟨0, 0⟩

/-- `d · 10^10` is an integer -/
def isInt10 (d : Dec) : Prop := -10 ≤ d.exp ∨ (10 : Int) ^ (-(d.exp + 10)).toNat ∣ d.coeff

/-- for a decimal in normal form the exponent test of ParseZCN is the value-level test "d·10^10 ∉ ℤ" -/
theorem tooManyDecimals_iff (d : Dec) (hn : Dec.normal d) : d.exp < -10 ↔ ¬ isInt10 d := by
  constructor
  · intro h hi
    rcases hi with hi | hi
    · omega
    · obtain ⟨k, hk⟩ : ∃ k : Nat, (-(d.exp + 10)).toNat = k + 1 := ⟨(-(d.exp + 10)).toNat - 1, by omega⟩
      rw [hk, Int.pow_succ] at hi
      have h10 : (10 : Int) ∣ d.coeff := Int.dvd_trans (Int.dvd_mul_left _ _) hi
      rcases hn with hn | hn
      · exact hn (Int.emod_eq_zero_of_dvd h10)
      · rw [hn] at h; simp at h
  · intro h
    apply Int.not_le.mp
    intro hle
    exact h (Or.inl hle)

/-! ## format then parse -/

/-- `d` is what `decimal.NewFromFloat(x)` returns for a finite `x`: a decimal that rounds to `x` (`rt`), written
    without trailing zeros and with zero as `0·10^0` (`normal`), such that no decimal with fewer digits rounds to `x`
    (`shortest`). The library additionally picks the one closest to `x` among those — not needed here. -/
structure ShortestRT (x : F64) (d : Dec) : Prop where
  rt : Dec.float64 d = x
  normal : Dec.normal d
  shortest : ∀ d' : Dec, Dec.float64 d' = x → ∀ k : Nat, d'.coeff.natAbs < 10 ^ k → d.coeff.natAbs < 10 ^ k

/-- formatting an amount of at most 15 significant digits (`c = C·10^j`, `C < 10^15`) as ZCN and parsing the result
    returns the amount: the classical "15 decimal digits survive binary64" argument (`10^15 < 2^52`) -/
theorem zcn_roundtrip (c : Coin) (h15 : ∃ C j : Nat, c.toNat = C * 10 ^ j ∧ C < 10 ^ 15) (hr : c.toNat < 2 ^ 63) :
    ∃ z, Coin_ToZCN c = .ok z ∧ ∀ d, ShortestRT z d → ParseZCN z d = .ok c := by
  refine ⟨roundNE false c.toNat (10 ^ 10), ?_, ?_⟩
  · rw [toZCN_spec]; unfold Verif.Spec.Currency.toZCN; rw [if_neg (by omega)]
  · intro d hs
    by_cases hc0 : c.toNat = 0
    · -- the zero amount: the float is +0, its shortest decimal in normal form is 0·10^0
      have hz : (roundNE false c.toNat (10 ^ 10)).val = .fin false 0 (-1074) := by rw [hc0]; exact roundNE_zero _ _
      have hd0 : Dec.float64 ⟨0, 0⟩ = roundNE false c.toNat (10 ^ 10) := by rw [hc0]; decide
      have h0 := hs.shortest ⟨0, 0⟩ hd0 0 (by decide)
      have hco : d.coeff = 0 := by simp at h0; exact h0
      have hd : d = ⟨0, 0⟩ := by
        rcases hs.normal with h | h
        · rw [hco] at h; simp at h
        · exact h
      rw [parseZCN_spec]; unfold Verif.Spec.Currency.parseZCN; rw [hz, hd]
      have : c = 0#64 := BitVec.eq_of_toNat_eq (by simpa using hc0)
      rw [this]; decide
    · have hN : 0 < c.toNat := by omega
      obtain ⟨C, j, hC, hC15⟩ := h15
      have hCpos : 0 < C := by
        rcases Nat.eq_zero_or_pos C with h | h
        · rw [h] at hC; simp at hC; omega
        · exact h
      obtain ⟨C', i, hC', hC'10⟩ := strip_zeros C hCpos
      have hNC : c.toNat = C' * 10 ^ (i + j) := by rw [hC, hC', pow_add, mul_assoc]
      have hC'15 : C' < 10 ^ 15 := by
        have : C' ≤ C := by rw [hC']; exact Nat.le_mul_of_pos_right _ (by positivity)
        omega
      have hd := shortest_unique c.toNat hN c.isLt C' (i + j) hNC hC'15 hC'10 d hs.rt hs.normal hs.shortest
      obtain ⟨m, e, hz⟩ := roundNE_val_fin false c.toNat (10 ^ 10) (mag_c_bounds c.toNat hN c.isLt).2
      rw [parseZCN_spec]; unfold Verif.Spec.Currency.parseZCN; rw [hz, hd]
      simp only []
      have hamt : amount ⟨(C' : ℤ), ((i + j : ℕ) : ℤ) - 10⟩ = (c.toNat : ℤ) := by
        unfold amount
        have hexp : ((((i + j : ℕ) : ℤ) - 10 + 10).toNat) = i + j := by omega
        simp only [hexp]
        rw [hNC]; push_cast; ring
      unfold Verif.Spec.Currency.parseDec
      rw [hamt]
      simp only []
      rw [if_neg (by omega), if_neg (by omega), if_neg (by unfold maxInt64; omega)]
      simp [genErrs]

/-- the hypotheses of `zcn_roundtrip` are satisfiable by a non-trivial amount: 1.5 ZCN -/
example : (∃ C j : Nat, (15000000000#64 : Coin).toNat = C * 10 ^ j ∧ C < 10 ^ 15) ∧ (15000000000#64 : Coin).toNat < 2 ^ 63 :=
  ⟨⟨15, 9, by decide, by decide⟩, by decide⟩

/-- the hypothesis of `zcn_roundtrip` is satisfiable for EVERY non-zero amount of at most 15 significant digits: the
    amount written without trailing zeros is a shortest round-trip decimal of its float (no shorter decimal rounds
    to the same float), so the round trip is a statement about a decimal that exists -/
theorem shortestRT_exists (c : Coin) (hc : 0 < c.toNat) (h15 : ∃ C j : Nat, c.toNat = C * 10 ^ j ∧ C < 10 ^ 15) :
    ∃ d, ShortestRT (roundNE false c.toNat (10 ^ 10)) d := by
  obtain ⟨C, j, hC, hC15⟩ := h15
  have hCpos : 0 < C := by
    rcases Nat.eq_zero_or_pos C with h | h
    · rw [h] at hC; simp at hC; omega
    · exact h
  obtain ⟨C', i, hC', hC'10⟩ := strip_zeros C hCpos
  have hNC : c.toNat = C' * 10 ^ (i + j) := by rw [hC, hC', pow_add, mul_assoc]
  have hC'15 : C' < 10 ^ 15 := by
    have : C' ≤ C := by rw [hC']; exact Nat.le_mul_of_pos_right _ (by positivity)
    omega
  obtain ⟨h1, h2⟩ := shortest_exists c.toNat hc c.isLt C' (i + j) hNC hC'15 hC'10
  refine ⟨⟨(C' : Int), ((i + j : Nat) : Int) - 10⟩, h1, Or.inl (by simp only; omega), ?_⟩
  intro d' hd' k hk
  simpa using h2 d' hd' k hk

/-! ## no operation panics -/

/-- the specification never panics (it has no `.panic` leaf) … -/
theorem spec_no_panic {ε : Type} (E : Errs ε) :
    (∀ a b, Verif.Spec.Currency.addCoin E a b ≠ .panic) ∧ (∀ a b, Verif.Spec.Currency.multCoin E a b ≠ .panic) ∧
    (∀ a b, Verif.Spec.Currency.minusCoin E a b ≠ .panic) ∧ (∀ c a, Verif.Spec.Currency.addInt64 E c a ≠ .panic) ∧
    (∀ c a, Verif.Spec.Currency.minusInt64 E c a ≠ .panic) ∧ (∀ c a, Verif.Spec.Currency.distributeCoin E c a ≠ .panic) ∧
    (∀ a, Verif.Spec.Currency.int64ToCoin E a ≠ .panic) ∧ (∀ c, Verif.Spec.Currency.coinInt64 E c ≠ .panic) ∧
    (∀ a b, (Verif.Spec.Currency.min a b : Res ε U64) ≠ .panic) ∧ (∀ x, Verif.Spec.Currency.float64ToCoin E x ≠ .panic) ∧
    (∀ c a, Verif.Spec.Currency.multFloat64 E c a ≠ .panic) ∧ (∀ c, (Verif.Spec.Currency.coinFloat64 c : Res ε F64) ≠ .panic) ∧
    (∀ c, Verif.Spec.Currency.toZCN E c ≠ .panic) ∧ (∀ x d, Verif.Spec.Currency.parseZCN E x d ≠ .panic) := by
  have hf : ∀ x, Verif.Spec.Currency.float64ToCoin E x ≠ .panic := by
    intro x; unfold Verif.Spec.Currency.float64ToCoin
    (repeat' split) <;> simp
  refine ⟨?_, ?_, ?_, ?_, ?_, ?_, ?_, ?_, ?_, hf, ?_, ?_, ?_, ?_⟩
  · intro a b; unfold Verif.Spec.Currency.addCoin; split <;> simp
  · intro a b; unfold Verif.Spec.Currency.multCoin; split <;> simp
  · intro a b; unfold Verif.Spec.Currency.minusCoin; split <;> simp
  · intro a b; unfold Verif.Spec.Currency.addInt64; (repeat' split) <;> simp
  · intro a b; unfold Verif.Spec.Currency.minusInt64; (repeat' split) <;> simp
  · intro a b; unfold Verif.Spec.Currency.distributeCoin; (repeat' split) <;> simp
  · intro a; unfold Verif.Spec.Currency.int64ToCoin; split <;> simp
  · intro a; unfold Verif.Spec.Currency.coinInt64; split <;> simp
  · intro a b; unfold Verif.Spec.Currency.min; simp
  · intro c a; unfold Verif.Spec.Currency.multFloat64; split
    · simp
    · exact hf _
  · intro c; unfold Verif.Spec.Currency.coinFloat64; simp
  · intro c; unfold Verif.Spec.Currency.toZCN; split <;> simp
  · intro x d; unfold Verif.Spec.Currency.parseZCN Verif.Spec.Currency.parseDec
    (repeat' split) <;> simp

/-- … and so does the code: none of the 14 generated functions returns `.panic` for any input -/
theorem no_panic :
    (∀ a b, AddCoin a b ≠ .panic) ∧ (∀ c b, MultCoin c b ≠ .panic) ∧ (∀ c b, MinusCoin c b ≠ .panic) ∧
    (∀ c a, AddInt64 c a ≠ .panic) ∧ (∀ c a, MinusInt64 c a ≠ .panic) ∧ (∀ c a, DistributeCoin c a ≠ .panic) ∧
    (∀ a, Int64ToCoin a ≠ .panic) ∧ (∀ c, Coin_Int64 c ≠ .panic) ∧ (∀ a b, Currency.Min a b ≠ .panic) ∧
    (∀ x, Float64ToCoin x ≠ .panic) ∧ (∀ c a, MultFloat64 c a ≠ .panic) ∧ (∀ c, Coin_Float64 c ≠ .panic) ∧
    (∀ c, Coin_ToZCN c ≠ .panic) ∧ (∀ x d, ParseZCN x d ≠ .panic) := by
  obtain ⟨h1, h2, h3, h4, h5, h6, h7, h8, h9, h10, h11, h12, h13, h14⟩ := spec_no_panic genErrs
  refine ⟨?_, ?_, ?_, ?_, ?_, ?_, ?_, ?_, ?_, ?_, ?_, ?_, ?_, ?_⟩
  · intro a b; rw [addCoin_spec]; exact h1 a b
  · intro a b; rw [multCoin_spec]; exact h2 a b
  · intro a b; rw [minusCoin_spec]; exact h3 a b
  · intro a b; rw [addInt64_spec]; exact h4 a b
  · intro a b; rw [minusInt64_spec]; exact h5 a b
  · intro a b; rw [distribute_spec]; exact h6 a b
  · intro a; rw [int64ToCoin_spec]; exact h7 a
  · intro a; rw [coinInt64_spec]; exact h8 a
  · intro a b; rw [min_spec]; exact h9 a b
  · intro x; rw [float64ToCoin_spec]; exact h10 x
  · intro c a; rw [multFloat64_spec]; exact h11 c a
  · intro c; rw [coinFloat64_spec]; exact h12 c
  · intro c; rw [toZCN_spec]; exact h13 c
  · intro x d; rw [parseZCN_spec]; exact h14 x d

-- non-vacuity / sanity instances (closed terms, evaluated by the kernel)
example : MultCoin 4294967296#64 4294967296#64 = .err .ErrUint64MultOverflow := by decide
example : MultCoin 4294967295#64 4294967297#64 = .ok 18446744073709551615#64 := by decide
example : DistributeCoin 10#64 3#64 = .ok (3#64, 1#64) := by decide
example : DistributeCoin 10#64 0#64 = .err .ErrDivideByZero := by decide
example : Dec.normal ⟨15, -1⟩ := Or.inl (by decide)
example : parseDec genErrs ⟨15, -1⟩ = .ok 15000000000#64 := by decide
example : ParseZCN (F64.mk 0x3ff8000000000000#64) ⟨15, -1⟩ = .ok 15000000000#64 := by decide
example : Float64ToCoin (F64.mk 0x43efffffffffffff#64) = .ok 18446744073709549568#64 := by decide +kernel
example : Float64ToCoin (F64.mk 0x43f0000000000000#64) = .err .ErrTooLarge := by decide +kernel

/-! ## "never a silently wrapped or saturated amount" — the corollaries the property names -/

/-- every value an integer helper returns satisfies the exact-arithmetic relation in ℕ/ℤ (no wrap-around):
    the `toNat` of the result IS the mathematical sum / product / difference / quotient / remainder / minimum -/
theorem no_silent_wrap_int :
    (∀ a b v, AddCoin a b = .ok v → v.toNat = a.toNat + b.toNat) ∧
    (∀ a b v, MultCoin a b = .ok v → v.toNat = a.toNat * b.toNat) ∧
    (∀ a b v, MinusCoin a b = .ok v → v.toNat + b.toNat = a.toNat) ∧
    (∀ c (a : I64) v, AddInt64 c a = .ok v → (v.toNat : Int) = c.toNat + a.toInt ∧ 0 ≤ a.toInt) ∧
    (∀ c (a : I64) v, MinusInt64 c a = .ok v → (v.toNat : Int) = c.toNat - a.toInt ∧ 0 ≤ a.toInt) ∧
    (∀ c (a : I64) q r, DistributeCoin c a = .ok (q, r) →
        0 < a.toInt ∧ (c.toNat : Int) = q.toNat * a.toInt + r.toNat ∧ (r.toNat : Int) < a.toInt) ∧
    (∀ (a : I64) v, Int64ToCoin a = .ok v → (v.toNat : Int) = a.toInt) ∧
    (∀ (c : Coin) (v : I64), Coin_Int64 c = .ok v → v.toInt = c.toNat) ∧
    (∀ a b v, Currency.Min a b = .ok v → v.toNat = min a.toNat b.toNat) := by
  refine ⟨?_, ?_, ?_, ?_, ?_, ?_, ?_, ?_, ?_⟩
  · intro a b v h
    rw [addCoin_spec] at h
    simp only [Verif.Spec.Currency.addCoin, genErrs] at h
    split at h
    · cases h; simp; omega
    · cases h
  · intro a b v h
    rw [multCoin_spec] at h
    simp only [Verif.Spec.Currency.multCoin, genErrs] at h
    split at h
    · rename_i hlt; cases h; simp; exact hlt
    · cases h
  · intro a b v h
    have := a.isLt
    rw [minusCoin_spec] at h
    simp only [Verif.Spec.Currency.minusCoin, genErrs] at h
    split at h
    · cases h; simp; omega
    · cases h
  · intro c a v h
    have := c.isLt
    rw [addInt64_spec] at h
    simp only [Verif.Spec.Currency.addInt64, genErrs] at h
    split at h
    · cases h
    · split at h
      · cases h; simp; omega
      · cases h
  · intro c a v h
    have := c.isLt
    rw [minusInt64_spec] at h
    simp only [Verif.Spec.Currency.minusInt64, genErrs] at h
    split at h
    · cases h
    · split at h
      · cases h; simp; omega
      · cases h
  · intro c a q r h
    have hc := c.isLt
    rw [distribute_spec] at h
    simp only [Verif.Spec.Currency.distributeCoin, genErrs] at h
    split at h
    · cases h
    · split at h
      · cases h
      · rename_i h1 h2
        have hpos : 0 < a.toInt := by omega
        obtain ⟨n, hn⟩ : ∃ n : Nat, a.toInt = (n : Int) := ⟨a.toInt.toNat, by omega⟩
        have hnpos : 0 < n := by omega
        injection h with h
        injection h with hq hr
        subst hq; subst hr
        rw [hn]
        simp only [Int.toNat_natCast, BitVec.toNat_ofNat]
        have hq' : c.toNat / n % 2 ^ 64 = c.toNat / n :=
          Nat.mod_eq_of_lt (Nat.lt_of_le_of_lt (Nat.div_le_self _ _) hc)
        have hr' : c.toNat % n % 2 ^ 64 = c.toNat % n :=
          Nat.mod_eq_of_lt (Nat.lt_of_le_of_lt (Nat.mod_le _ _) hc)
        rw [hq', hr']
        refine ⟨by omega, ?_, ?_⟩
        · have := Nat.div_add_mod c.toNat n
          rw [Nat.mul_comm] at this
          exact_mod_cast this.symm
        · exact_mod_cast Nat.mod_lt _ hnpos
  · intro a v h
    have := a.isLt
    rw [int64ToCoin_spec] at h
    simp only [Verif.Spec.Currency.int64ToCoin, genErrs] at h
    split at h
    · cases h
    · cases h
      rename_i hnn
      rw [toInt_nonneg_toNat a (by omega)]
      simp
      rw [BitVec.toInt_eq_toNat_cond] at hnn ⊢
      split <;> split at hnn <;> omega
  · intro c v h
    rw [coinInt64_spec] at h
    simp only [Verif.Spec.Currency.coinInt64, genErrs] at h
    split at h
    · rename_i hlt; cases h; exact coinInt64_value c hlt
    · cases h
  · intro a b v h
    have := a.isLt
    have := b.isLt
    rw [min_spec] at h
    simp only [Verif.Spec.Currency.min, genErrs] at h
    cases h
    simp
    omega

/-- a value returned by the float conversions is never a saturated or wrapped amount: the float that was converted
    (for MultFloat64: the IEEE product `float64(c) · a`) is finite, not below zero and below `2^64`, and the returned
    amount is exactly its integer part -/
theorem no_saturation_float :
    (∀ x v, Float64ToCoin x = .ok v →
      ∃ s m e, x.val = .fin s m e ∧ (s = false ∨ m = 0) ∧ truncNat m e < 2 ^ 64 ∧ v.toNat = truncNat m e) ∧
    (∀ c a v, MultFloat64 c a = .ok v → F64.lt a Verif.Spec.Currency.fzero = false ∧
      ∃ s m e, (F64.mul (F64.ofUInt64 c) a).val = .fin s m e ∧ (s = false ∨ m = 0) ∧ truncNat m e < 2 ^ 64 ∧
        v.toNat = truncNat m e) := by
  have hf : ∀ x v, Float64ToCoin x = .ok v →
      ∃ s m e, x.val = .fin s m e ∧ (s = false ∨ m = 0) ∧ truncNat m e < 2 ^ 64 ∧ v.toNat = truncNat m e := by
    intro x v h
    rw [float64ToCoin_spec] at h
    simp only [Verif.Spec.Currency.float64ToCoin, genErrs] at h
    split at h
    · cases h
    · cases h
    · cases h
    · rename_i s m e hv
      split at h
      · cases h
      · rename_i hs
        split at h
        · cases h
        · rename_i hr
          cases h
          refine ⟨s, m, e, hv, ?_, by omega, ?_⟩
          · cases s
            · exact Or.inl rfl
            · right
              apply Classical.byContradiction
              intro hm; exact hs ⟨rfl, hm⟩
          · simp; omega
  refine ⟨hf, ?_⟩
  intro c a v h
  rw [multFloat64_spec] at h
  unfold Verif.Spec.Currency.multFloat64 at h
  split at h
  · cases h
  · rename_i hlt
    rw [← float64ToCoin_spec] at h
    exact ⟨by simpa using hlt, hf _ _ h⟩

/-! ## msgp codec of `Coin` (currency_gen.go)

`currency_gen.go` is generated code over the msgp library and is not translated; its model is
`Verif/Model/Msgp.lean` (AppendUint64 / ReadUint64Bytes byte for byte, every Go slice index an explicit `.panic`),
tied to the compiled code by the ops `menc`/`mdec` of suite c18 (boundary amounts; all 256 lead bytes × payload
lengths 0..10; malformed streams). Which msgp primitives the Go methods reach is extracted by go/xlate and pinned here (`codec_primitives`). -/

/-- which msgp primitives the codec methods reach (through any helpers of currency_gen.go, in any layout): encoding
    goes through the UNSIGNED append and nothing but `Require`/`Uint64Size` besides; decoding through the unsigned
    read (plus error wrapping); `Msgsize` is `Uint64Size`. A signed/float variant or any other primitive fails here;
    what the bytes are is the business of the `menc`/`mdec` correspondence and of the theorems below. -/
theorem codec_primitives :
    (codecPrimitives.lookup "MarshalMsg").any (fun m =>
      "AppendUint64" ∈ m ∧ m.all (· ∈ ["AppendUint64", "Require", "Uint64Size"])) = true ∧
    (codecPrimitives.lookup "UnmarshalMsg").any (fun m =>
      "ReadUint64Bytes" ∈ m ∧ m.all (· ∈ ["ReadUint64Bytes", "WrapError"])) = true ∧
    codecPrimitives.lookup "Msgsize" = some ["Uint64Size"] := by decide

/-- decoding an encoded amount returns the amount and exactly the bytes that followed it
    (`rest = []`: `decode (encode c) = (c, [])`) -/
theorem coin_msgp_roundtrip (c : Coin) (rest : Bytes) :
    unmarshalCoin (marshalCoin [] c ++ rest) = .ok (c, rest) := by
  unfold unmarshalCoin marshalCoin
  rw [List.nil_append, readUint64_appendUint64 c.toNat c.isLt rest]
  simp

/-- encoding appends to the given buffer and never writes more than `Msgsize` bytes -/
theorem coin_msgsize_bound (pre : Bytes) (c : Coin) :
    marshalCoin pre c = pre ++ marshalCoin [] c ∧ (marshalCoin [] c).length ≤ uint64Size := by
  unfold marshalCoin
  exact ⟨by simp, by simpa using appendUint64_length c.toNat⟩

/-- the decoder is total: for every byte string it returns a value or an error, it never indexes out of range -/
theorem coin_msgp_decode_total (b : Bytes) : unmarshalCoin b ≠ .panic := by
  unfold unmarshalCoin
  have := readUint64_ne_panic b
  split <;> simp_all

example : marshalCoin [] (300#64 : Coin) = [0xcd, 0x01, 0x2c] := by decide
example : unmarshalCoin [0xd0, 0xff] = .err (.belowZero (-1)) := by decide
example : unmarshalCoin [0xcd, 0x01] = .err .short := by decide

end Verif.Props.C18
