import Verif.Gen.Currency
import Verif.Lemmas.C18
/-! # C18 — currency arithmetic is exact or fails loudly

Every theorem here is about the definitions in `Verif/Gen/Currency.lean`, which `go/xlate` REGENERATES from
`core/currency/currency.go` before each build (bin/check deletes the file first). A change of the Go source changes
the definitions; the theorems then hold of the new code or the build fails.

Shape of an integer spec: `f args = if <exact result representable> then .ok <exact result> else .err <kind>`, the
exact result being computed in `Nat`/`Int` (no wrap-around) and embedded with `BitVec.ofNat 64` — below `2^64` that
embedding is injective, so the returned bits are pinned. `.panic` never occurs (`no_panic`). -/
namespace Verif.Props.C18
open Verif.GoSem Verif.Gen Verif.Gen.Currency Verif.Lemmas.C18

/-- pins the set of translated functions: a function added to currency.go must get its theorems here -/
theorem generated_functions : generatedFunctions =
    ["AddCoin", "AddInt64", "Coin_Float64", "Coin_Int64", "Coin_ToZCN", "DistributeCoin", "Float64ToCoin",
     "Int64ToCoin", "Min", "MinusCoin", "MinusInt64", "MultCoin", "MultFloat64", "ParseZCN"] := by decide

/-! ## integer helpers -/

theorem addCoin_spec (a b : Coin) :
    AddCoin a b = if a.toNat + b.toNat < 2 ^ 64 then .ok (BitVec.ofNat 64 (a.toNat + b.toNat))
      else .err .ErrUint64AddOverflow := by
  have ha := a.isLt
  have hb := b.isLt
  unfold AddCoin
  simp only [BitVec.lt_def, BitVec.toNat_add]
  by_cases h : a.toNat + b.toNat < 2 ^ 64
  · rw [if_neg (by omega), if_pos h]
    exact congrArg Res.ok (BitVec.eq_of_toNat_eq (by simp))
  · rw [if_pos (by omega), if_neg h]

theorem multCoin_spec (c b : Coin) :
    MultCoin c b = if c.toNat * b.toNat < 2 ^ 64 then .ok (BitVec.ofNat 64 (c.toNat * b.toNat))
      else .err .ErrUint64MultOverflow := by
  unfold MultCoin
  by_cases hc0 : c = 0#64
  · subst hc0; simp
  · have hcpos := toNat_pos_of_ne_zero c hc0
    simp only [ne_eq, hc0, not_false_eq_true, if_true, if_false]
    have hmul : (c * b).toNat = (c.toNat * b.toNat) % 2 ^ 64 := BitVec.toNat_mul c b
    by_cases h : c.toNat * b.toNat < 2 ^ 64
    · have hq : (c * b) / c = b := by
        apply BitVec.eq_of_toNat_eq
        rw [BitVec.toNat_udiv, hmul, Nat.mod_eq_of_lt h, Nat.mul_div_cancel_left _ hcpos]
      rw [if_neg (by simp [hq]), if_pos h]
      exact congrArg Res.ok (BitVec.eq_of_toNat_eq (by rw [hmul]; simp))
    · have hq : (c * b) / c ≠ b := by
        intro heq
        have h1 := congrArg BitVec.toNat heq
        rw [BitVec.toNat_udiv, hmul] at h1
        have hlt : (c.toNat * b.toNat) % 2 ^ 64 < c.toNat * b.toNat := by omega
        have h2 : (c.toNat * b.toNat) % 2 ^ 64 / c.toNat < b.toNat := Nat.div_lt_of_lt_mul hlt
        omega
      rw [if_pos hq, if_neg h]

theorem minusCoin_spec (c b : Coin) :
    MinusCoin c b = if b.toNat ≤ c.toNat then .ok (BitVec.ofNat 64 (c.toNat - b.toNat))
      else .err .ErrUint64MinusOverflow := by
  have hc := c.isLt
  have hb := b.isLt
  unfold MinusCoin
  simp only [gt_iff_lt, BitVec.lt_def]
  by_cases h : b.toNat ≤ c.toNat
  · rw [if_neg (by omega), if_pos h]
    refine congrArg Res.ok (BitVec.eq_of_toNat_eq ?_)
    simp [BitVec.toNat_sub]
    omega
  · rw [if_pos (by omega), if_neg h]

/-- `int64 → Coin`: the signed value when it is non-negative -/
theorem int64ToCoin_spec (a : I64) :
    Int64ToCoin a = if a.toInt < 0 then .err .ErrInt64UnderflowsUint64 else .ok (BitVec.ofNat 64 a.toInt.toNat) := by
  unfold Int64ToCoin
  simp only [slt_zero_iff]
  by_cases h : a.toInt < 0
  · rw [if_pos h, if_pos h]
  · rw [if_neg h, if_neg h, toInt_nonneg_toNat a (by omega)]
    simp

/-- `Coin → int64`: the result's signed value is the amount, when it is below `2^63` -/
theorem coinInt64_spec (c : Coin) :
    Coin_Int64 c = if c.toNat < 2 ^ 63 then .ok (BitVec.ofInt 64 c.toNat) else .err .ErrUint64OverflowsInt64 := by
  have := c.isLt
  unfold Coin_Int64
  simp only [slt_zero_iff]
  rw [BitVec.toInt_eq_toNat_cond]
  by_cases h : c.toNat < 2 ^ 63
  · rw [if_neg (by split <;> omega), if_pos h]
    exact congrArg Res.ok (BitVec.eq_of_toNat_eq (by simp))
  · rw [if_pos (by split <;> omega), if_neg h]

/-- the embedding used in `coinInt64_spec` is faithful: the returned int64 reads back as the amount -/
theorem coinInt64_value (c : Coin) (h : c.toNat < 2 ^ 63) : (BitVec.ofInt 64 (c.toNat : Int)).toInt = c.toNat := by
  rw [BitVec.toInt_ofInt]
  simp only [Int.bmod]
  omega

theorem addInt64_spec (c : Coin) (a : I64) :
    AddInt64 c a = if a.toInt < 0 then .err .ErrInt64UnderflowsUint64
      else if c.toNat + a.toInt.toNat < 2 ^ 64 then .ok (BitVec.ofNat 64 (c.toNat + a.toInt.toNat))
      else .err .ErrUint64AddOverflow := by
  unfold AddInt64
  rw [int64ToCoin_spec]
  by_cases h : a.toInt < 0
  · simp only [if_pos h]
  · simp only [if_neg h, addCoin_spec, toNat_ofNat_toInt a h]

theorem minusInt64_spec (c : Coin) (a : I64) :
    MinusInt64 c a = if a.toInt < 0 then .err .ErrInt64UnderflowsUint64
      else if a.toInt.toNat ≤ c.toNat then .ok (BitVec.ofNat 64 (c.toNat - a.toInt.toNat))
      else .err .ErrUint64MinusOverflow := by
  unfold MinusInt64
  rw [int64ToCoin_spec]
  by_cases h : a.toInt < 0
  · simp only [if_pos h]
  · simp only [if_neg h, minusCoin_spec, toNat_ofNat_toInt a h]

/-- quotient and remainder are exact; a negative or zero number of parts is an error, never a panic -/
theorem distribute_spec (c : Coin) (a : I64) :
    DistributeCoin c a = if a.toInt < 0 then .err .ErrInt64UnderflowsUint64
      else if a.toInt = 0 then .err .ErrDivideByZero
      else .ok (BitVec.ofNat 64 (c.toNat / a.toInt.toNat), BitVec.ofNat 64 (c.toNat % a.toInt.toNat)) := by
  unfold DistributeCoin
  rw [int64ToCoin_spec]
  by_cases h : a.toInt < 0
  · simp only [if_pos h]
  · simp only [if_neg h]
    have hn := toInt_nonneg_toNat a (by omega)
    rw [hn, ofNat_toNat64]
    by_cases h0 : a = 0#64
    · subst h0; simp
    · have hi : ¬ a.toInt = 0 := by
        intro hz
        apply h0
        apply BitVec.eq_of_toNat_eq
        rw [← hn, hz]; rfl
      simp only [if_neg h0, if_neg hi]
      refine congrArg Res.ok (Prod.ext ?_ ?_)
      · apply BitVec.eq_of_toNat_eq
        rw [BitVec.toNat_udiv, BitVec.toNat_ofNat,
          Nat.mod_eq_of_lt (Nat.lt_of_le_of_lt (Nat.div_le_self _ _) c.isLt)]
      · apply BitVec.eq_of_toNat_eq
        rw [BitVec.toNat_umod, BitVec.toNat_ofNat,
          Nat.mod_eq_of_lt (Nat.lt_of_le_of_lt (Nat.mod_le _ _) c.isLt)]

theorem min_spec (a b : Coin) : Currency.Min a b = .ok (BitVec.ofNat 64 (min a.toNat b.toNat)) := by
  unfold Currency.Min
  simp only [BitVec.lt_def]
  by_cases h : a.toNat < b.toNat
  · rw [if_pos h, Nat.min_eq_left (by omega)]; simp
  · rw [if_neg h, Nat.min_eq_right (by omega)]; simp

end Verif.Props.C18
