import Verif.Gen.Currency
import Verif.Lemmas.C18
import Verif.Lemmas.F64
import Verif.Lemmas.Zcn
import Verif.Lemmas.Msgp
/-! # C18 — currency arithmetic is exact or fails loudly

Every theorem here is about the definitions in `Verif/Gen/Currency.lean`, which `go/xlate` REGENERATES from
`core/currency/currency.go` before each build (bin/check deletes the file first). A change of the Go source changes
the definitions; the theorems then hold of the new code or the build fails.

Shape of an integer spec: `f args = if <exact result representable> then .ok <exact result> else .err <kind>`, the
exact result being computed in `Nat`/`Int` (no wrap-around) and embedded with `BitVec.ofNat 64` — below `2^64` that
embedding is injective, so the returned bits are pinned. `.panic` never occurs (`no_panic`). -/
namespace Verif.Props.C18
open Verif.GoSem Verif.F64 Verif.Dec Verif.Gen Verif.Gen.Currency Verif.Lemmas.C18 Verif.Lemmas.F64 Verif.Lemmas.Zcn
open Verif.Msgp Verif.Lemmas.Msgp

/-- pins the set of translated functions: a function added to currency.go must get its theorems here -/
theorem generated_functions : generatedFunctions =
    ["AddCoin", "AddInt64", "Coin_Float64", "Coin_Int64", "Coin_ToZCN", "DistributeCoin", "Float64ToCoin",
     "Int64ToCoin", "Min", "MinusCoin", "MinusInt64", "MultCoin", "MultFloat64", "ParseZCN"] := by decide

/-! ## integer helpers -/

theorem addCoin_spec (a b : Coin) :
    AddCoin a b = if a.toNat + b.toNat < 2 ^ 64 then .ok (BitVec.ofNat 64 (a.toNat + b.toNat))
      else .err .ErrUint64AddOverflow := by
  have ha := a.isLt
  have hb := b.isLt
  unfold AddCoin
  simp only [BitVec.lt_def, BitVec.toNat_add]
  by_cases h : a.toNat + b.toNat < 2 ^ 64
  · rw [if_neg (by omega), if_pos h]
    exact congrArg Res.ok (BitVec.eq_of_toNat_eq (by simp))
  · rw [if_pos (by omega), if_neg h]

theorem multCoin_spec (c b : Coin) :
    MultCoin c b = if c.toNat * b.toNat < 2 ^ 64 then .ok (BitVec.ofNat 64 (c.toNat * b.toNat))
      else .err .ErrUint64MultOverflow := by
  unfold MultCoin
  by_cases hc0 : c = 0#64
  · subst hc0; simp
  · have hcpos := toNat_pos_of_ne_zero c hc0
    simp only [ne_eq, hc0, not_false_eq_true, if_true, if_false]
    have hmul : (c * b).toNat = (c.toNat * b.toNat) % 2 ^ 64 := BitVec.toNat_mul c b
    by_cases h : c.toNat * b.toNat < 2 ^ 64
    · have hq : (c * b) / c = b := by
        apply BitVec.eq_of_toNat_eq
        rw [BitVec.toNat_udiv, hmul, Nat.mod_eq_of_lt h, Nat.mul_div_cancel_left _ hcpos]
      rw [if_neg (by simp [hq]), if_pos h]
      exact congrArg Res.ok (BitVec.eq_of_toNat_eq (by rw [hmul]; simp))
    · have hq : (c * b) / c ≠ b := by
        intro heq
        have h1 := congrArg BitVec.toNat heq
        rw [BitVec.toNat_udiv, hmul] at h1
        have hlt : (c.toNat * b.toNat) % 2 ^ 64 < c.toNat * b.toNat := by omega
        have h2 : (c.toNat * b.toNat) % 2 ^ 64 / c.toNat < b.toNat := Nat.div_lt_of_lt_mul hlt
        omega
      rw [if_pos hq, if_neg h]

theorem minusCoin_spec (c b : Coin) :
    MinusCoin c b = if b.toNat ≤ c.toNat then .ok (BitVec.ofNat 64 (c.toNat - b.toNat))
      else .err .ErrUint64MinusOverflow := by
  have hc := c.isLt
  have hb := b.isLt
  unfold MinusCoin
  simp only [gt_iff_lt, BitVec.lt_def]
  by_cases h : b.toNat ≤ c.toNat
  · rw [if_neg (by omega), if_pos h]
    refine congrArg Res.ok (BitVec.eq_of_toNat_eq ?_)
    simp [BitVec.toNat_sub]
    omega
  · rw [if_pos (by omega), if_neg h]

/-- `int64 → Coin`: the signed value when it is non-negative -/
theorem int64ToCoin_spec (a : I64) :
    Int64ToCoin a = if a.toInt < 0 then .err .ErrInt64UnderflowsUint64 else .ok (BitVec.ofNat 64 a.toInt.toNat) := by
  unfold Int64ToCoin
  simp only [slt_zero_iff]
  by_cases h : a.toInt < 0
  · rw [if_pos h, if_pos h]
  · rw [if_neg h, if_neg h, toInt_nonneg_toNat a (by omega)]
    simp

/-- `Coin → int64`: the result's signed value is the amount, when it is below `2^63` -/
theorem coinInt64_spec (c : Coin) :
    Coin_Int64 c = if c.toNat < 2 ^ 63 then .ok (BitVec.ofInt 64 c.toNat) else .err .ErrUint64OverflowsInt64 := by
  have := c.isLt
  unfold Coin_Int64
  simp only [slt_zero_iff]
  rw [BitVec.toInt_eq_toNat_cond]
  by_cases h : c.toNat < 2 ^ 63
  · rw [if_neg (by split <;> omega), if_pos h]
    exact congrArg Res.ok (BitVec.eq_of_toNat_eq (by simp))
  · rw [if_pos (by split <;> omega), if_neg h]

/-- the embedding used in `coinInt64_spec` is faithful: the returned int64 reads back as the amount -/
theorem coinInt64_value (c : Coin) (h : c.toNat < 2 ^ 63) : (BitVec.ofInt 64 (c.toNat : Int)).toInt = c.toNat := by
  rw [BitVec.toInt_ofInt]
  simp only [Int.bmod]
  omega

theorem addInt64_spec (c : Coin) (a : I64) :
    AddInt64 c a = if a.toInt < 0 then .err .ErrInt64UnderflowsUint64
      else if c.toNat + a.toInt.toNat < 2 ^ 64 then .ok (BitVec.ofNat 64 (c.toNat + a.toInt.toNat))
      else .err .ErrUint64AddOverflow := by
  unfold AddInt64
  rw [int64ToCoin_spec]
  by_cases h : a.toInt < 0
  · simp only [if_pos h]
  · simp only [if_neg h, addCoin_spec, toNat_ofNat_toInt a h]

theorem minusInt64_spec (c : Coin) (a : I64) :
    MinusInt64 c a = if a.toInt < 0 then .err .ErrInt64UnderflowsUint64
      else if a.toInt.toNat ≤ c.toNat then .ok (BitVec.ofNat 64 (c.toNat - a.toInt.toNat))
      else .err .ErrUint64MinusOverflow := by
  unfold MinusInt64
  rw [int64ToCoin_spec]
  by_cases h : a.toInt < 0
  · simp only [if_pos h]
  · simp only [if_neg h, minusCoin_spec, toNat_ofNat_toInt a h]

/-- quotient and remainder are exact; a negative or zero number of parts is an error, never a panic -/
theorem distribute_spec (c : Coin) (a : I64) :
    DistributeCoin c a = if a.toInt < 0 then .err .ErrInt64UnderflowsUint64
      else if a.toInt = 0 then .err .ErrDivideByZero
      else .ok (BitVec.ofNat 64 (c.toNat / a.toInt.toNat), BitVec.ofNat 64 (c.toNat % a.toInt.toNat)) := by
  unfold DistributeCoin
  rw [int64ToCoin_spec]
  by_cases h : a.toInt < 0
  · simp only [if_pos h]
  · simp only [if_neg h]
    have hn := toInt_nonneg_toNat a (by omega)
    rw [hn, ofNat_toNat64]
    by_cases h0 : a = 0#64
    · subst h0; simp
    · have hi : ¬ a.toInt = 0 := by
        intro hz
        apply h0
        apply BitVec.eq_of_toNat_eq
        rw [← hn, hz]; rfl
      simp only [if_neg h0, if_neg hi]
      refine congrArg Res.ok (Prod.ext ?_ ?_)
      · apply BitVec.eq_of_toNat_eq
        rw [BitVec.toNat_udiv, BitVec.toNat_ofNat,
          Nat.mod_eq_of_lt (Nat.lt_of_le_of_lt (Nat.div_le_self _ _) c.isLt)]
      · apply BitVec.eq_of_toNat_eq
        rw [BitVec.toNat_umod, BitVec.toNat_ofNat,
          Nat.mod_eq_of_lt (Nat.lt_of_le_of_lt (Nat.mod_le _ _) c.isLt)]

theorem min_spec (a b : Coin) : Currency.Min a b = .ok (BitVec.ofNat 64 (min a.toNat b.toNat)) := by
  unfold Currency.Min
  simp only [BitVec.lt_def]
  by_cases h : a.toNat < b.toNat
  · rw [if_pos h, Nat.min_eq_left (by omega)]; simp
  · rw [if_neg h, Nat.min_eq_right (by omega)]; simp


/-! ## float helpers

Floats are the binary64 model `Verif/Model/F64.lean` (value = `(-1)^neg · m · 2^e`, operations = exact result rounded
to nearest-even, comparisons IEEE); the model is pinned to the compiled Go arithmetic by the correspondence run. -/

/-- the exact outcome of converting a float to a coin: the value truncated toward zero when `0 ≤ x < 2^64` (`-0`
    counts as 0); an error for NaN, ±∞, every negative non-zero value and every value `≥ 2^64` -/
def f2cSpec (x : F64) : Res ErrKind Coin :=
  match x.val with
  | .nan => .err .ErrNotANumber
  | .inf true => .err .ErrFloat64UnderflowsUint64
  | .inf false => .err .ErrTooLarge
  | .fin s m e =>
    if s = true ∧ m ≠ 0 then .err .ErrFloat64UnderflowsUint64
    else if 2 ^ 64 ≤ truncNat m e then .err .ErrTooLarge
    else .ok (BitVec.ofNat 64 (truncNat m e))

theorem float64ToCoin_spec (x : F64) : Float64ToCoin x = f2cSpec x := by
  have h1 := lt_zero_iff x
  have h2 := eq_self_false_iff x
  have h3 := le_C64_iff x
  unfold Float64ToCoin f2cSpec
  cases h : x.val with
  | nan =>
    rw [h] at h1 h3
    rw [if_neg (by rw [h1]; simp), if_pos (h2.mpr h)]
  | inf s =>
    rw [h] at h1 h3
    have hn : ¬ (F64.eq x x = false) := by rw [h2, h]; simp
    cases s
    · rw [if_neg (by rw [h1]; simp), if_neg hn, if_pos (by rw [h3])]
    · rw [if_pos (by rw [h1])]
  | fin s m e =>
    rw [h] at h1 h3
    have hn : ¬ (F64.eq x x = false) := by rw [h2, h]; simp
    simp only []
    by_cases hs : s = true ∧ m ≠ 0
    · rw [if_pos (h1.mpr hs), if_pos hs]
    · rw [if_neg (by rw [h1]; exact hs), if_neg hn, if_neg hs]
      by_cases hr : 2 ^ 64 ≤ truncNat m e
      · have hsf : s = false := by
          cases s
          · rfl
          · exfalso
            have hm : m = 0 := Classical.byContradiction (fun hne => hs ⟨rfl, hne⟩)
            subst hm
            have : truncNat 0 e = 0 := by unfold truncNat; split <;> simp
            omega
        rw [if_pos (h3.mpr ⟨hsf, hr⟩), if_pos hr]
      · rw [if_neg (by rw [h3]; intro hc; exact hr hc.2), if_neg hr,
          toUInt64_of_fin x s m e h hs (by omega)]

theorem multFloat64_spec (c : Coin) (a : F64) :
    MultFloat64 c a = if F64.lt a Z = true then .err .ErrNegativeValue
      else Float64ToCoin (F64.mul (F64.ofUInt64 c) a) := by
  unfold MultFloat64
  by_cases h : F64.lt a Z = true
  · rw [if_pos h, if_pos h]
  · rw [if_neg h, if_neg h]
    simp only []
    have := mul_not_lt_zero (F64.ofUInt64 c) a (ofUInt64_not_lt_zero c) (by simpa using h)
    rw [if_neg (by simp [this])]

theorem coinFloat64_spec (c : Coin) : Coin_Float64 c = .ok (roundNE false c.toNat 1) := by
  unfold Coin_Float64
  simp only []
  rw [if_neg (by simp [ofUInt64_not_lt_zero c])]
  rfl

/-! ## ZCN amounts (shopspring/decimal)

`decimal.NewFromFloat(x)` is not modelled: the generated `ParseZCN` takes the decimal the library returned as its
second argument (after an explicit `.panic` where the library panics). -/

def maxInt64 : Int := 9223372036854775807

/-- `d · 10^10` for a decimal with at most ten decimal places -/
def amount (d : Dec) : Int := d.coeff * 10 ^ (d.exp + 10).toNat

/-- ParseZCN as a function of the decimal the library produced for the float -/
def parseDec (d : Dec) : Res ErrKind Coin :=
  if d.coeff < 0 then .err .ErrNegativeValue
  else if d.exp < -10 then .err .ErrTooManyDecimals
  else if maxInt64 < amount d then .err .ErrTooLarge
  else .ok (BitVec.ofNat 64 (amount d).toNat)

theorem parseZCN_spec (x : F64) (d : Dec) :
    ParseZCN x d = match x.val with
      | .nan => .err .ErrNotANumber
      | .inf true => .err .ErrNegativeValue
      | .inf false => .err .ErrTooLarge
      | .fin _ _ _ => parseDec d := by
  have h1 := lt_zero_iff x
  have h2 := eq_self_false_iff x
  have h3 := isInf_zero_iff x
  have h4 := isNaN_iff x
  unfold ParseZCN
  cases h : x.val with
  | nan => rw [if_pos (h2.mpr h)]
  | inf s =>
    have hn : ¬ (F64.eq x x = false) := by rw [h2, h]; simp
    rw [if_neg hn, if_pos (h3.mpr ⟨s, h⟩)]
    rw [h] at h1
    cases s
    · rw [if_neg (by rw [h1]; simp)]
    · rw [if_pos (by rw [h1])]
  | fin s m e =>
    have hn : ¬ (F64.eq x x = false) := by rw [h2, h]; simp
    have hi : ¬ (F64.isInf x (0 : Int) = true) := by rw [h3, h]; simp
    have hnan : ¬ (F64.isNaN x = true) := by rw [h4, h]; simp
    rw [if_neg hn, if_neg hi, if_neg (by simp [hi, hnan])]
    delta Dec.sign Dec.exponent Dec.shift
    simp only [parseDec, sign_eq_neg_one_iff]
    by_cases hneg : d.coeff < 0
    · rw [if_pos hneg, if_pos hneg]
    · rw [if_neg hneg, if_neg hneg]
      by_cases hexp : d.exp < -10
      · rw [if_pos hexp, if_pos hexp]
      · rw [if_neg hexp, if_neg hexp, if_neg (by omega)]
        have hmin : min (d.exp + 10) 0 = 0 := by omega
        have hgt : Dec.greaterThan ⟨d.coeff, d.exp + 10⟩ maxDecimal = true ↔ maxInt64 < amount d := by
          rw [maxDecimal_eq]
          simp only [Dec.greaterThan, hmin, decide_eq_true_eq, amount, maxInt64]
          simp
        by_cases hbig : maxInt64 < amount d
        · rw [if_pos (hgt.mpr hbig), if_pos hbig]
        · rw [if_neg (by rw [hgt]; exact hbig), if_neg hbig]
          have hiv : Dec.intValue ⟨d.coeff, d.exp + 10⟩ = amount d := by
            simp only [Dec.intValue, amount]
            rw [if_pos (by omega)]
          simp only [Dec.intPart, hiv]
          have hnn : 0 ≤ amount d := by
            unfold amount
            exact Int.mul_nonneg (by omega) (Int.le_of_lt (Int.pow_pos (by decide)))
          obtain ⟨k, hk⟩ : ∃ k : Nat, amount d = (k : Int) := ⟨(amount d).toNat, by omega⟩
          rw [hk, BitVec.ofInt_natCast]
          simp

theorem toZCN_spec (c : Coin) :
    Coin_ToZCN c = if 2 ^ 63 ≤ c.toNat then .err .ErrTooLarge else .ok (roundNE false c.toNat (10 ^ 10)) := by
  have hlt := c.isLt
  unfold Coin_ToZCN
  simp only [gt_iff_lt, BitVec.lt_def]
  by_cases h : 2 ^ 63 ≤ c.toNat
  · rw [if_pos (by simp; omega), if_pos h]
  · rw [if_neg (by simp; omega), if_neg h]
    have hi : c.toInt = (c.toNat : Int) := by
      rw [BitVec.toInt_eq_toNat_cond]; split <;> omega
    simp only [Dec.float64, Dec.new, hi]
    rw [if_neg (by omega)]
    have hnn : ¬ ((c.toNat : Int) < 0) := by omega
    simp [hnn]

/-- no trailing zero in the coefficient; zero is `0·10^0` (what `decimal.NewFromFloat` returns) -/
def Dec.normal (d : Dec) : Prop := d.coeff % 10 ≠ 0 ∨ d = ⟨0, 0⟩

/-- `d · 10^10` is an integer -/
def isInt10 (d : Dec) : Prop := -10 ≤ d.exp ∨ (10 : Int) ^ (-(d.exp + 10)).toNat ∣ d.coeff

/-- for a decimal in normal form the exponent test of ParseZCN is the value-level test "d·10^10 ∉ ℤ" -/
theorem tooManyDecimals_iff (d : Dec) (hn : Dec.normal d) : d.exp < -10 ↔ ¬ isInt10 d := by
  constructor
  · intro h hi
    rcases hi with hi | hi
    · omega
    · obtain ⟨k, hk⟩ : ∃ k : Nat, (-(d.exp + 10)).toNat = k + 1 := ⟨(-(d.exp + 10)).toNat - 1, by omega⟩
      rw [hk, Int.pow_succ] at hi
      have h10 : (10 : Int) ∣ d.coeff := Int.dvd_trans (Int.dvd_mul_left _ _) hi
      rcases hn with hn | hn
      · exact hn (Int.emod_eq_zero_of_dvd h10)
      · rw [hn] at h; simp at h
  · intro h
    apply Int.not_le.mp
    intro hle
    exact h (Or.inl hle)

/-! ## format then parse -/

/-- `d` is what `decimal.NewFromFloat(x)` returns for a finite `x`: a decimal that rounds to `x` (`rt`), written
    without trailing zeros and with zero as `0·10^0` (`normal`), such that no decimal with fewer digits rounds to `x`
    (`shortest`). The library additionally picks the one closest to `x` among those — not needed here. -/
structure ShortestRT (x : F64) (d : Dec) : Prop where
  rt : Dec.float64 d = x
  normal : Dec.normal d
  shortest : ∀ d' : Dec, Dec.float64 d' = x → ∀ k : Nat, d'.coeff.natAbs < 10 ^ k → d.coeff.natAbs < 10 ^ k

/-- formatting an amount of at most 15 significant digits (`c = C·10^j`, `C < 10^15`) as ZCN and parsing the result
    returns the amount: the classical "15 decimal digits survive binary64" argument (`10^15 < 2^52`) -/
theorem zcn_roundtrip (c : Coin) (h15 : ∃ C j : Nat, c.toNat = C * 10 ^ j ∧ C < 10 ^ 15) (hr : c.toNat < 2 ^ 63) :
    ∃ z, Coin_ToZCN c = .ok z ∧ ∀ d, ShortestRT z d → ParseZCN z d = .ok c := by
  refine ⟨roundNE false c.toNat (10 ^ 10), ?_, ?_⟩
  · rw [toZCN_spec, if_neg (by omega)]
  · intro d hs
    by_cases hc0 : c.toNat = 0
    · -- the zero amount: the float is +0, its shortest decimal in normal form is 0·10^0
      have hz : (roundNE false c.toNat (10 ^ 10)).val = .fin false 0 (-1074) := by rw [hc0]; exact roundNE_zero _ _
      have hd0 : Dec.float64 ⟨0, 0⟩ = roundNE false c.toNat (10 ^ 10) := by rw [hc0]; decide
      have h0 := hs.shortest ⟨0, 0⟩ hd0 0 (by decide)
      have hco : d.coeff = 0 := by simp at h0; exact h0
      have hd : d = ⟨0, 0⟩ := by
        rcases hs.normal with h | h
        · rw [hco] at h; simp at h
        · exact h
      rw [parseZCN_spec, hz, hd]
      have : c = 0#64 := BitVec.eq_of_toNat_eq (by simpa using hc0)
      rw [this]; decide
    · have hN : 0 < c.toNat := by omega
      obtain ⟨C, j, hC, hC15⟩ := h15
      have hCpos : 0 < C := by
        rcases Nat.eq_zero_or_pos C with h | h
        · rw [h] at hC; simp at hC; omega
        · exact h
      obtain ⟨C', i, hC', hC'10⟩ := strip_zeros C hCpos
      have hNC : c.toNat = C' * 10 ^ (i + j) := by rw [hC, hC', pow_add, mul_assoc]
      have hC'15 : C' < 10 ^ 15 := by
        have : C' ≤ C := by rw [hC']; exact Nat.le_mul_of_pos_right _ (by positivity)
        omega
      have hd := shortest_unique c.toNat hN c.isLt C' (i + j) hNC hC'15 hC'10 d hs.rt hs.normal hs.shortest
      obtain ⟨m, e, hz⟩ := roundNE_val_fin false c.toNat (10 ^ 10) (mag_c_bounds c.toNat hN c.isLt).2
      rw [parseZCN_spec, hz, hd]
      have hamt : amount ⟨(C' : ℤ), ((i + j : ℕ) : ℤ) - 10⟩ = (c.toNat : ℤ) := by
        unfold amount
        have hexp : ((((i + j : ℕ) : ℤ) - 10 + 10).toNat) = i + j := by omega
        simp only [hexp]
        rw [hNC]; push_cast; ring
      unfold parseDec
      rw [hamt]
      simp only []
      rw [if_neg (by omega), if_neg (by omega), if_neg (by unfold maxInt64; omega)]
      simp

/-- the hypotheses of `zcn_roundtrip` are satisfiable by a non-trivial amount: 1.5 ZCN -/
example : (∃ C j : Nat, (15000000000#64 : Coin).toNat = C * 10 ^ j ∧ C < 10 ^ 15) ∧ (15000000000#64 : Coin).toNat < 2 ^ 63 :=
  ⟨⟨15, 9, by decide, by decide⟩, by decide⟩

/-- the hypothesis of `zcn_roundtrip` is satisfiable for EVERY non-zero amount of at most 15 significant digits: the
    amount written without trailing zeros is a shortest round-trip decimal of its float (no shorter decimal rounds
    to the same float), so the round trip is a statement about a decimal that exists -/
theorem shortestRT_exists (c : Coin) (hc : 0 < c.toNat) (h15 : ∃ C j : Nat, c.toNat = C * 10 ^ j ∧ C < 10 ^ 15) :
    ∃ d, ShortestRT (roundNE false c.toNat (10 ^ 10)) d := by
  obtain ⟨C, j, hC, hC15⟩ := h15
  have hCpos : 0 < C := by
    rcases Nat.eq_zero_or_pos C with h | h
    · rw [h] at hC; simp at hC; omega
    · exact h
  obtain ⟨C', i, hC', hC'10⟩ := strip_zeros C hCpos
  have hNC : c.toNat = C' * 10 ^ (i + j) := by rw [hC, hC', pow_add, mul_assoc]
  have hC'15 : C' < 10 ^ 15 := by
    have : C' ≤ C := by rw [hC']; exact Nat.le_mul_of_pos_right _ (by positivity)
    omega
  obtain ⟨h1, h2⟩ := shortest_exists c.toNat hc c.isLt C' (i + j) hNC hC'15 hC'10
  refine ⟨⟨(C' : Int), ((i + j : Nat) : Int) - 10⟩, h1, Or.inl (by simp only; omega), ?_⟩
  intro d' hd' k hk
  simpa using h2 d' hd' k hk

/-! ## no operation panics -/

theorem no_panic :
    (∀ a b, AddCoin a b ≠ .panic) ∧ (∀ c b, MultCoin c b ≠ .panic) ∧ (∀ c b, MinusCoin c b ≠ .panic) ∧
    (∀ c a, AddInt64 c a ≠ .panic) ∧ (∀ c a, MinusInt64 c a ≠ .panic) ∧ (∀ c a, DistributeCoin c a ≠ .panic) ∧
    (∀ a, Int64ToCoin a ≠ .panic) ∧ (∀ c, Coin_Int64 c ≠ .panic) ∧ (∀ a b, Currency.Min a b ≠ .panic) ∧
    (∀ x, Float64ToCoin x ≠ .panic) ∧ (∀ c a, MultFloat64 c a ≠ .panic) ∧ (∀ c, Coin_Float64 c ≠ .panic) ∧
    (∀ c, Coin_ToZCN c ≠ .panic) ∧ (∀ x d, ParseZCN x d ≠ .panic) := by
  have hf : ∀ x, Float64ToCoin x ≠ .panic := by
    intro x; rw [float64ToCoin_spec]; unfold f2cSpec
    split
    · simp
    · simp
    · simp
    · split
      · simp
      · split <;> simp
  refine ⟨?_, ?_, ?_, ?_, ?_, ?_, ?_, ?_, ?_, hf, ?_, ?_, ?_, ?_⟩
  · intro a b; rw [addCoin_spec]; split <;> simp
  · intro a b; rw [multCoin_spec]; split <;> simp
  · intro a b; rw [minusCoin_spec]; split <;> simp
  · intro a b; rw [addInt64_spec]; (repeat' split) <;> simp
  · intro a b; rw [minusInt64_spec]; (repeat' split) <;> simp
  · intro a b; rw [distribute_spec]; (repeat' split) <;> simp
  · intro a; rw [int64ToCoin_spec]; split <;> simp
  · intro a; rw [coinInt64_spec]; split <;> simp
  · intro a b; rw [min_spec]; simp
  · intro c a; rw [multFloat64_spec]; split
    · simp
    · exact hf _
  · intro c; rw [coinFloat64_spec]; simp
  · intro c; rw [toZCN_spec]; split <;> simp
  · intro x d; rw [parseZCN_spec]
    split
    · simp
    · simp
    · simp
    · unfold parseDec
      (repeat' split) <;> simp

-- non-vacuity / sanity instances (closed terms, evaluated by the kernel)
example : MultCoin 4294967296#64 4294967296#64 = .err .ErrUint64MultOverflow := by decide
example : MultCoin 4294967295#64 4294967297#64 = .ok 18446744073709551615#64 := by decide
example : DistributeCoin 10#64 3#64 = .ok (3#64, 1#64) := by decide
example : DistributeCoin 10#64 0#64 = .err .ErrDivideByZero := by decide
example : Dec.normal ⟨15, -1⟩ := Or.inl (by decide)
example : parseDec ⟨15, -1⟩ = .ok 15000000000#64 := by decide
example : ParseZCN (F64.mk 0x3ff8000000000000#64) ⟨15, -1⟩ = .ok 15000000000#64 := by decide
example : Float64ToCoin (F64.mk 0x43efffffffffffff#64) = .ok 18446744073709549568#64 := by decide +kernel
example : Float64ToCoin (F64.mk 0x43f0000000000000#64) = .err .ErrTooLarge := by decide +kernel

/-! ## "never a silently wrapped or saturated amount" — the corollaries the property names -/

/-- every value an integer helper returns satisfies the exact-arithmetic relation in ℕ/ℤ (no wrap-around):
    the `toNat` of the result IS the mathematical sum / product / difference / quotient / remainder / minimum -/
theorem no_silent_wrap_int :
    (∀ a b v, AddCoin a b = .ok v → v.toNat = a.toNat + b.toNat) ∧
    (∀ a b v, MultCoin a b = .ok v → v.toNat = a.toNat * b.toNat) ∧
    (∀ a b v, MinusCoin a b = .ok v → v.toNat + b.toNat = a.toNat) ∧
    (∀ c (a : I64) v, AddInt64 c a = .ok v → (v.toNat : Int) = c.toNat + a.toInt ∧ 0 ≤ a.toInt) ∧
    (∀ c (a : I64) v, MinusInt64 c a = .ok v → (v.toNat : Int) = c.toNat - a.toInt ∧ 0 ≤ a.toInt) ∧
    (∀ c (a : I64) q r, DistributeCoin c a = .ok (q, r) →
        0 < a.toInt ∧ (c.toNat : Int) = q.toNat * a.toInt + r.toNat ∧ (r.toNat : Int) < a.toInt) ∧
    (∀ (a : I64) v, Int64ToCoin a = .ok v → (v.toNat : Int) = a.toInt) ∧
    (∀ (c : Coin) (v : I64), Coin_Int64 c = .ok v → v.toInt = c.toNat) ∧
    (∀ a b v, Currency.Min a b = .ok v → v.toNat = min a.toNat b.toNat) := by
  refine ⟨?_, ?_, ?_, ?_, ?_, ?_, ?_, ?_, ?_⟩
  · intro a b v h
    rw [addCoin_spec] at h
    split at h
    · cases h; simp; omega
    · cases h
  · intro a b v h
    rw [multCoin_spec] at h
    split at h
    · rename_i hlt; cases h; simp; exact hlt
    · cases h
  · intro a b v h
    have := a.isLt
    rw [minusCoin_spec] at h
    split at h
    · cases h; simp; omega
    · cases h
  · intro c a v h
    have := c.isLt
    rw [addInt64_spec] at h
    split at h
    · cases h
    · split at h
      · cases h; simp; omega
      · cases h
  · intro c a v h
    have := c.isLt
    rw [minusInt64_spec] at h
    split at h
    · cases h
    · split at h
      · cases h; simp; omega
      · cases h
  · intro c a q r h
    have hc := c.isLt
    rw [distribute_spec] at h
    split at h
    · cases h
    · split at h
      · cases h
      · rename_i h1 h2
        have hpos : 0 < a.toInt := by omega
        obtain ⟨n, hn⟩ : ∃ n : Nat, a.toInt = (n : Int) := ⟨a.toInt.toNat, by omega⟩
        have hnpos : 0 < n := by omega
        injection h with h
        injection h with hq hr
        subst hq; subst hr
        rw [hn]
        simp only [Int.toNat_natCast, BitVec.toNat_ofNat]
        have hq' : c.toNat / n % 2 ^ 64 = c.toNat / n :=
          Nat.mod_eq_of_lt (Nat.lt_of_le_of_lt (Nat.div_le_self _ _) hc)
        have hr' : c.toNat % n % 2 ^ 64 = c.toNat % n :=
          Nat.mod_eq_of_lt (Nat.lt_of_le_of_lt (Nat.mod_le _ _) hc)
        rw [hq', hr']
        refine ⟨by omega, ?_, ?_⟩
        · have := Nat.div_add_mod c.toNat n
          rw [Nat.mul_comm] at this
          exact_mod_cast this.symm
        · exact_mod_cast Nat.mod_lt _ hnpos
  · intro a v h
    have := a.isLt
    rw [int64ToCoin_spec] at h
    split at h
    · cases h
    · cases h
      rename_i hnn
      rw [toInt_nonneg_toNat a (by omega)]
      simp
      rw [BitVec.toInt_eq_toNat_cond] at hnn ⊢
      split <;> split at hnn <;> omega
  · intro c v h
    rw [coinInt64_spec] at h
    split at h
    · rename_i hlt; cases h; exact coinInt64_value c hlt
    · cases h
  · intro a b v h
    have := a.isLt
    have := b.isLt
    rw [min_spec] at h
    cases h
    simp
    omega

/-- a value returned by the float conversions is never a saturated or wrapped amount: the float that was converted
    (for MultFloat64: the IEEE product `float64(c) · a`) is finite, not below zero and below `2^64`, and the returned
    amount is exactly its integer part -/
theorem no_saturation_float :
    (∀ x v, Float64ToCoin x = .ok v →
      ∃ s m e, x.val = .fin s m e ∧ (s = false ∨ m = 0) ∧ truncNat m e < 2 ^ 64 ∧ v.toNat = truncNat m e) ∧
    (∀ c a v, MultFloat64 c a = .ok v → F64.lt a Z = false ∧
      ∃ s m e, (F64.mul (F64.ofUInt64 c) a).val = .fin s m e ∧ (s = false ∨ m = 0) ∧ truncNat m e < 2 ^ 64 ∧
        v.toNat = truncNat m e) := by
  have hf : ∀ x v, Float64ToCoin x = .ok v →
      ∃ s m e, x.val = .fin s m e ∧ (s = false ∨ m = 0) ∧ truncNat m e < 2 ^ 64 ∧ v.toNat = truncNat m e := by
    intro x v h
    rw [float64ToCoin_spec] at h
    unfold f2cSpec at h
    split at h
    · cases h
    · cases h
    · cases h
    · rename_i s m e hv
      split at h
      · cases h
      · rename_i hs
        split at h
        · cases h
        · rename_i hr
          cases h
          refine ⟨s, m, e, hv, ?_, by omega, ?_⟩
          · cases s
            · exact Or.inl rfl
            · right
              apply Classical.byContradiction
              intro hm; exact hs ⟨rfl, hm⟩
          · simp; omega
  refine ⟨hf, ?_⟩
  intro c a v h
  rw [multFloat64_spec] at h
  split at h
  · cases h
  · rename_i hlt
    exact ⟨by simpa using hlt, hf _ _ h⟩

/-! ## msgp codec of `Coin` (currency_gen.go)

`currency_gen.go` is generated code over the msgp library and is not translated; its model is
`Verif/Model/Msgp.lean` (AppendUint64 / ReadUint64Bytes byte for byte, every Go slice index an explicit `.panic`),
tied to the compiled code by the ops `menc`/`mdec` of suite c18 (boundary amounts; all 256 lead bytes × payload
lengths 0..10; malformed streams). The shape of the Go methods is extracted by go/xlate and pinned here. -/

/-- the three codec methods still are thin wrappers of exactly these msgp members -/
theorem codec_shape : codecCalls =
    [("Coin.MarshalMsg", ["Require", "AppendUint64"]), ("*Coin.UnmarshalMsg", ["ReadUint64Bytes", "WrapError"]),
     ("Coin.Msgsize", ["Uint64Size"])] := by decide

/-- decoding an encoded amount returns the amount and exactly the bytes that followed it
    (`rest = []`: `decode (encode c) = (c, [])`) -/
theorem coin_msgp_roundtrip (c : Coin) (rest : Bytes) :
    unmarshalCoin (marshalCoin [] c ++ rest) = .ok (c, rest) := by
  unfold unmarshalCoin marshalCoin
  rw [List.nil_append, readUint64_appendUint64 c.toNat c.isLt rest]
  simp

/-- encoding appends to the given buffer and never writes more than `Msgsize` bytes -/
theorem coin_msgsize_bound (pre : Bytes) (c : Coin) :
    marshalCoin pre c = pre ++ marshalCoin [] c ∧ (marshalCoin [] c).length ≤ uint64Size := by
  unfold marshalCoin
  exact ⟨by simp, by simpa using appendUint64_length c.toNat⟩

/-- the decoder is total: for every byte string it returns a value or an error, it never indexes out of range -/
theorem coin_msgp_decode_total (b : Bytes) : unmarshalCoin b ≠ .panic := by
  unfold unmarshalCoin
  have := readUint64_ne_panic b
  split <;> simp_all

example : marshalCoin [] (300#64 : Coin) = [0xcd, 0x01, 0x2c] := by decide
example : unmarshalCoin [0xd0, 0xff] = .err (.belowZero (-1)) := by decide
example : unmarshalCoin [0xcd, 0x01] = .err .short := by decide

end Verif.Props.C18
