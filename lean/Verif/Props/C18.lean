import Verif.Gen.Currency
namespace Verif.Props.C18
open Verif.Gen.Currency
theorem generated_functions : generatedFunctions = ["AddCoin", "AddInt64", "Coin_Float64", "Coin_Int64", "Coin_ToZCN", "DistributeCoin", "Float64ToCoin", "Int64ToCoin", "Min", "MinusCoin", "MinusInt64", "MultCoin", "MultFloat64", "ParseZCN"] := by decide
end Verif.Props.C18
