/-
C20 — the lock-discipline hypothesis of `C20_conc`, discharged from the per-access table that `go/ringfacts`
regenerates from `core/logging` on every run (`Verif/Gen/RingFacts.lean`), and the capacity from `Gen/Constants`.

The facts are stated over *accesses*, not over the shape of the methods: whichever function of the package touches the
ring cursor or a ring slot, under whichever name, must do so with the one shared mutex held (write mode for writes, any
mode for reads); what is stored in a slot must be freshly allocated by that call; nothing read out of a slot may be
modified; cores derived from a core share its mutex.  A rewrite that keeps this (explicit unlock instead of `defer`,
helpers called with the lock held, renamed fields, the entry built before the lock) keeps `decide` succeeding; code
that walks the ring after unlocking, reuses a slot's entry object or gives a derived core its own mutex makes it fail.
-/
import Verif.Props.C20
import Verif.Gen.RingFacts
import Verif.Gen.Constants
namespace Verif.Props.C20
open Verif.Ring Verif.RingMutex
open Verif.Gen

/-- the lock facts of the code in the working tree -/
def codeFacts : LockFacts where
  write_holds_mu :=
    (RingFacts.uses.all fun u => !u.write || u.held == .write) &&
    (RingFacts.stores.all fun s => s.fresh) &&
    RingFacts.mutations.isEmpty
  getLogs_holds_mu := RingFacts.uses.all fun u => u.write || u.held != .none
  clone_holds_mu :=
    RingFacts.unknowns.isEmpty &&
    (RingFacts.uses.any fun u => u.write && u.what == "slot") &&
    (RingFacts.uses.any fun u => u.what == "walk") &&
    !RingFacts.stores.isEmpty
  derived_shares_mu :=
    RingFacts.mutexFields == 1 &&
    (RingFacts.coreLiterals.all fun l =>
      if l.fromExistingCore then l.mutexFrom == "shared" else l.mutexFrom == "fresh") &&
    (RingFacts.coreLiterals.any fun l => !l.fromExistingCore)

/-- the extracted facts are the ones `C20_conc` needs -/
theorem C20_lock_facts_hold : codeFacts.ok = true := by decide

/-- the capacity in the source is positive (its value is the maintainers' choice; suites and model driver take it from
the source) -/
theorem C20_capacity : 0 < Constants.bufferSize := by decide

/-- `C20_conc` for the code as it is: every finished concurrent execution of calls on one `MemLogger` is a
sequential history, and every `GetLogs` returned the `BufferSize` newest entries of it, newest first. -/
theorem C20_conc_code {ε : Type} (progs : Nat → List (COp ε)) (sched : List Nat)
    (hfin : (exec (sem codeFacts) (start (init Constants.bufferSize, []) progs) sched).finished) :
    ∃ lin : List (Nat × COp ε),
      (∀ t, proj lin t = progs t) ∧
      (exec (sem codeFacts) (start (init Constants.bufferSize, []) progs) sched).shared
        = crun (init Constants.bufferSize, []) (lin.map (·.2)) ∧
      (exec (sem codeFacts) (start (init Constants.bufferSize, []) progs) sched).shared.2
        = (specRun Constants.bufferSize (Spec.init, []) (lin.map (·.2))).2 :=
  C20_conc codeFacts C20_lock_facts_hold Constants.bufferSize C20_capacity progs sched hfin

end Verif.Props.C20
