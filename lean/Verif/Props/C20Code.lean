/-
C20 — the lock-discipline hypothesis of `C20_conc`, discharged from the per-access table that `go/ringfacts`
regenerates from `core/logging` on every run (`Verif/Gen/RingFacts.lean`), and the capacity from `Gen/Constants`.

The facts are stated over *accesses*, not over the shape of the methods: whichever function of the package touches the
ring cursor or a ring slot, under whichever name, must do so with the one shared mutex held (write mode for writes, any
mode for reads); what is stored in a slot must be freshly allocated by that call; nothing read out of a slot may be
modified; cores derived from a core share its mutex.  A rewrite that keeps this (explicit unlock instead of `defer`,
helpers called with the lock held, renamed fields, the entry built before the lock) keeps `decide` succeeding; code
that walks the ring after unlocking, reuses a slot's entry object or gives a derived core its own mutex makes it fail.
-/
import Verif.Props.C20
import Verif.Gen.RingFacts
import Verif.Gen.Constants
namespace Verif.Props.C20
open Verif.Ring Verif.RingMutex
open Verif.Gen

/-- the tables `go/ringfacts` produces -/
structure Table where
  uses : List RingFacts.Use
  stores : List RingFacts.Store
  mutations : List RingFacts.Mutation
  coreLiterals : List RingFacts.CoreLit
  unknowns : List String
  mutexFields : Nat

/-- the lock facts a table establishes.  Besides the universally quantified conditions there are existence
conditions, so that an empty or truncated table (an extractor that no longer finds the code) does NOT pass: some entry
point stores into a slot *and* advances the cursor, both under the write lock (the `Write` path, whatever its name);
some entry point reads the cursor and walks the ring under the lock (the `GetLogs` path); a core is built from an
existing core (the `With`/`clone` path) and one where none exists (the constructor). Roles come from declared types. -/
def factsOf (t : Table) : LockFacts where
  write_holds_mu :=
    (t.uses.all fun u => !u.write || u.held == .write) &&
    (t.stores.all fun s => s.fresh) &&
    t.mutations.isEmpty &&
    (t.stores.any fun s =>
      (t.uses.any fun u => u.entry == s.entry && u.what == "slot" && u.write && u.held == .write) &&
      (t.uses.any fun u => u.entry == s.entry && u.what == "cursor" && u.write && u.held == .write))
  getLogs_holds_mu :=
    (t.uses.all fun u => u.write || u.held != .none) &&
    (t.uses.any fun w => w.what == "walk" && w.held != .none &&
      (t.uses.any fun u => u.entry == w.entry && u.what == "cursor" && !u.write && u.held != .none))
  clone_holds_mu := t.unknowns.isEmpty
  derived_shares_mu :=
    t.mutexFields == 1 &&
    (t.coreLiterals.all fun l =>
      if l.fromExistingCore then l.mutexFrom == "shared" else l.mutexFrom == "fresh") &&
    (t.coreLiterals.any fun l => !l.fromExistingCore) &&
    (t.coreLiterals.any fun l => l.fromExistingCore)

/-- the lock facts of the code in the working tree -/
def codeFacts : LockFacts :=
  factsOf ⟨RingFacts.uses, RingFacts.stores, RingFacts.mutations, RingFacts.coreLiterals, RingFacts.unknowns,
    RingFacts.mutexFields⟩

/-- the facts are not vacuous: they fail on an empty table, on a table without the derived-core literal, on one
without a cursor write in the storing path, and on one without a walk -/
theorem C20_facts_not_vacuous :
    (factsOf ⟨[], [], [], [], [], 1⟩).ok = false ∧
    (factsOf ⟨RingFacts.uses, RingFacts.stores, RingFacts.mutations,
      RingFacts.coreLiterals.filter (fun l => !l.fromExistingCore), RingFacts.unknowns, RingFacts.mutexFields⟩).ok = false ∧
    (factsOf ⟨RingFacts.uses.filter (fun u => !(u.what == "cursor" && u.write)), RingFacts.stores, RingFacts.mutations,
      RingFacts.coreLiterals, RingFacts.unknowns, RingFacts.mutexFields⟩).ok = false ∧
    (factsOf ⟨RingFacts.uses.filter (fun u => u.what != "walk"), RingFacts.stores, RingFacts.mutations,
      RingFacts.coreLiterals, RingFacts.unknowns, RingFacts.mutexFields⟩).ok = false ∧
    (factsOf ⟨RingFacts.uses, [], RingFacts.mutations, RingFacts.coreLiterals, RingFacts.unknowns,
      RingFacts.mutexFields⟩).ok = false := by decide

/-- the extracted facts are the ones `C20_conc` needs -/
theorem C20_lock_facts_hold : codeFacts.ok = true := by decide

/-- the capacity in the source is positive (its value is the maintainers' choice; suites and model driver take it from
the source) -/
theorem C20_capacity : 0 < Constants.bufferSize := by decide

/-- `C20_conc` for the code as it is: every finished concurrent execution of calls on one `MemLogger` is a
sequential history, and every `GetLogs` returned the `BufferSize` newest entries of it, newest first. -/
theorem C20_conc_code {ε : Type} (progs : Nat → List (COp ε)) (sched : List Nat)
    (hfin : (exec (sem codeFacts) (start (init Constants.bufferSize, []) progs) sched).finished) :
    ∃ lin : List (Nat × COp ε),
      (∀ t, proj lin t = progs t) ∧
      (exec (sem codeFacts) (start (init Constants.bufferSize, []) progs) sched).shared
        = crun (init Constants.bufferSize, []) (lin.map (·.2)) ∧
      (exec (sem codeFacts) (start (init Constants.bufferSize, []) progs) sched).shared.2
        = (specRun Constants.bufferSize (Spec.init, []) (lin.map (·.2))).2 :=
  C20_conc codeFacts C20_lock_facts_hold Constants.bufferSize C20_capacity progs sched hfin

end Verif.Props.C20
