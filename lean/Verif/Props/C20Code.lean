/-
C20 — the lock-discipline hypothesis of `C20_conc`, discharged from the table the fact extractor regenerates from
`core/logging/inmemory_logger.go` on every run (`Verif/Gen/LockFacts.lean`), and the capacity from `Gen/Constants`.
If the code stops taking the shared mutex around a ring access, or a derived core stops sharing mutex or cursor,
`decide` fails here and the check reports the obligation as broken.
-/
import Verif.Props.C20
import Verif.Gen.LockFacts
import Verif.Gen.Constants
namespace Verif.Props.C20
open Verif.Ring Verif.RingMutex
open Verif.Gen

/-- the method takes the exclusive lock of `mutex` as the first thing that touches shared state and releases it by
`defer`: every recorded access to a receiver field happens under that write lock, except plain reads of the fields in
`immutable` (fields no method ever assigns) -/
def holdsExclusive (m : LockFacts.Method) (mutex : String) (immutable : List String) : Bool :=
  m.lock == .write && m.mutex == mutex && m.deferred && m.postStmts == 0 && !m.reentrant &&
  m.goroutines.isEmpty &&
  m.accesses.all (fun a => a.mode == .write || (a.kind == .read && immutable.contains a.field))

/-- how the literal returned by `clone` fills a field -/
def cloneField (f : String) : Option (String × LockFacts.LitSrc) :=
  (LockFacts.memCore_clone.literal.find? (fun l => l.field == f)).map (fun l => (l.expr, l.src))

/-- the lock facts of the code in the working tree -/
def codeFacts : LockFacts where
  write_holds_mu := holdsExclusive LockFacts.memCore_Write "mu" [] && LockFacts.memCore_Write.preStmts == 0
  getLogs_holds_mu :=
    -- `MemLogger.core` is assigned only by `NewMemLogger`; the statements before the lock read nothing else
    holdsExclusive LockFacts.memLogger_GetLogs "core.mu" ["core"]
  clone_holds_mu :=
    holdsExclusive LockFacts.memCore_clone "mu" [] && LockFacts.memCore_clone.preStmts == 0 &&
    -- `With` reaches ring state (`r`, `cur`) only through `clone`
    LockFacts.memCore_With.accesses.all (fun a => (a.field != "r" && a.field != "cur") || a.via == "clone")
  derived_shares_mu :=
    cloneField "mu" == some ("mc.mu", .sameField) &&
    cloneField "cur" == some ("mc.cursor()", .recvCall) &&
    cloneField "r" == some ("mc.r", .sameField) &&
    LockFacts.memCoreInfo.mutexes == ["mu"]

/-- the extracted facts are the ones `C20_conc` needs -/
theorem C20_lock_facts_hold : codeFacts.ok = true := by decide

/-- the capacity in the source is positive (and is the 1024 the correspondence run uses) -/
theorem C20_capacity : 0 < Constants.bufferSize ∧ Constants.bufferSize = 1024 := by decide

/-- `C20_conc` for the code as it is: every finished concurrent execution of calls on one `MemLogger` is a
sequential history, and every `GetLogs` returned the `BufferSize` newest entries of it, newest first. -/
theorem C20_conc_code {ε : Type} (progs : Nat → List (COp ε)) (sched : List Nat)
    (hfin : (exec (sem codeFacts) (start (init Constants.bufferSize, []) progs) sched).finished) :
    ∃ lin : List (Nat × COp ε),
      (∀ t, proj lin t = progs t) ∧
      (exec (sem codeFacts) (start (init Constants.bufferSize, []) progs) sched).shared
        = crun (init Constants.bufferSize, []) (lin.map (·.2)) ∧
      (exec (sem codeFacts) (start (init Constants.bufferSize, []) progs) sched).shared.2
        = (specRun Constants.bufferSize (Spec.init, []) (lin.map (·.2))).2 :=
  C20_conc codeFacts C20_lock_facts_hold Constants.bufferSize C20_capacity.1 progs sched hfin

end Verif.Props.C20
