/-
C15 (weighted-trie half) — decoders reject malformed input without crashing.

Model: `Verif.Model.Wmpt.deserializeNode` (the code of `wmpt.DeserializeNode` after the CBOR layer, written over the
bounds-checked slice primitives `slice` / `sliceFrom` / `uint64At`, which return `.err .panic` exactly where the Go
slice expression or `binary.BigEndian.Uint64` would panic), `verifyProof` (proof.go) and `deserializeTrie` (path.go)
over the decoded pair list (`PairD.nilPair` = CBOR null in the pairs array, `PairD.bad` = bytes the CBOR layer
rejects). The CBOR library itself is an external parameter (trusted base: `cbor.Unmarshal` never panics).

The theorems say: for EVERY decoded structure — arbitrary field contents and lengths, any number of children, any
pair list, any block number, any hash function — the result is never `panic`; and the two recursive decoders consume
at least one pair per call, so their recursion depth is bounded by the number of pairs (termination; the functions are
accepted by Lean's structural recursion checker).
-/
import Verif.Lemmas.WmptDecode
namespace Verif.Props.C15Wmpt
open Verif.Wmpt

/-- a child entry of at least 40 bytes never makes a slice expression panic -/
theorem deserializeChild_total (c : Bytes) : (deserializeChild c).isPanic = false := by
  unfold deserializeChild
  simp only [show hashWithWeightLength = 40 from rfl]
  by_cases h : c.length ≥ 40
  · have h40 : 40 ≤ c.length := h
    simp only [h, if_true]
    have s1 : slice c 0 32 = .ok ((c.take 32).drop 0) := by
      unfold slice; simp; omega
    have s2 : sliceFrom c 32 = .ok (c.drop 32) := by
      unfold sliceFrom; simp; omega
    have s3 : uint64At (c.drop 32) = .ok (be64Dec (c.drop 32)) := by
      unfold uint64At; simp; omega
    simp only [s1, s2, s3]
    by_cases e : c.length = 40
    · simp [e, Res.isPanic]
    · simp only [e, if_false]
      by_cases l : c.length < 40 + 32
      · simp [l, Res.isPanic]
      · have h72 : 72 ≤ c.length := by omega
        have s4 : slice c 40 (40 + 32) = .ok ((c.take 72).drop 40) := by
          unfold slice; simp; omega
        have s5 : sliceFrom c (40 + 32) = .ok (c.drop 72) := by
          unfold sliceFrom; simp; omega
        by_cases hk : isNibbles (c.drop 72) = true <;> simp [l, s4, s5, hk, Res.isPanic]
  · simp [h, Res.isPanic]

theorem deserializeChildren_total (cs : List Bytes) : (deserializeChildren cs).isPanic = false := by
  induction cs with
  | nil => simp [deserializeChildren, Res.isPanic]
  | cons c rest ih =>
    unfold deserializeChildren
    have hc := deserializeChild_total c
    cases hdc : deserializeChild c with
    | err e => rw [hdc] at hc; cases e <;> simp_all [Res.isPanic]
    | ok n =>
      simp only
      cases hr : deserializeChildren rest with
      | err e => rw [hr] at ih; cases e <;> simp_all [Res.isPanic]
      | ok p =>
        obtain ⟨ns, w⟩ := p
        cases n <;> simp [Res.isPanic]

/-- `DeserializeNode`: no index / slice panic for any decoded `PersistNodeBase` (fixes e13aecc, d64bddf) -/
theorem deserializeNode_total (p : PBase) : (deserializeNode p).isPanic = false := by
  unfold deserializeNode
  cases hb : p.branch with
  | some b =>
    simp only
    by_cases hl : b.children.length > branchNodeLength
    · simp [hl, Res.isPanic]
    · simp only [hl, if_false]
      have := deserializeChildren_total b.children
      cases hc : deserializeChildren b.children with
      | err e => rw [hc] at this; cases e <;> simp_all [Res.isPanic]
      | ok q => obtain ⟨ns, w⟩ := q; simp [Res.isPanic]
  | none =>
    simp only
    cases hv : p.value with
    | some v => simp [Res.isPanic]
    | none =>
      simp only
      by_cases hn : p.nilNode
      · simp [hn, Res.isPanic]
      · simp only [hn]
        cases hh : p.hashNode with
        | some h => simp [Res.isPanic]
        | none =>
          simp only
          cases hs : p.short with
          | none => simp [Res.isPanic]
          | some s =>
            simp only
            by_cases hk : isNibbles s.key = true
            case neg => simp [hk, Res.isPanic]
            by_cases hl : s.value.length ≠ hashWithWeightLength
            · simp [hk, hl, Res.isPanic]
            · have h40 : s.value.length = 40 := by simpa [hashWithWeightLength] using hl
              have s1 : slice s.value 0 32 = .ok ((s.value.take 32).drop 0) := by
                unfold slice; simp; omega
              have s2 : sliceFrom s.value 32 = .ok (s.value.drop 32) := by
                unfold sliceFrom; simp; omega
              have s3 : uint64At (s.value.drop 32) = .ok (be64Dec (s.value.drop 32)) := by
                unfold uint64At; simp; omega
              simp [hk, hl, s1, s2, s3, Res.isPanic]

/-- `verifyProof`: no panic for any pair list (null pairs included: fix 990a210), block number and hash function -/
theorem verifyProof_total (H : Bytes → Bytes) (ps : List PairD) (b : Nat) : (verifyProof H ps b).isPanic = false := by
  induction ps generalizing b with
  | nil => simp [verifyProof, Res.isPanic]
  | cons p rest ih =>
    cases p with
    | nilPair => simp [verifyProof, Res.isPanic]
    | bad => simp [verifyProof, Res.isPanic]
    | ok q =>
      unfold verifyProof
      have hd := deserializeNode_total q
      cases hq : deserializeNode q with
      | err e => rw [hq] at hd; cases e <;> simp_all [Res.isPanic]
      | ok n =>
        cases n with
        | routing h ch w d tc =>
          simp only
          cases hp : pickChild ch allNib b with
          | none => simp [Res.isPanic]
          | some ib =>
            obtain ⟨i, b'⟩ := ib
            simp only
            have := ih b'
            cases hv : verifyProof H rest b' with
            | err e => rw [hv] at this; cases e <;> simp_all [Res.isPanic]
            | ok r => obtain ⟨c, v, rest'⟩ := r; simp [Res.isPanic]
        | short k h c d tc =>
          simp only
          by_cases hw : b > c.weight
          · simp [hw, Res.isPanic]
          · simp only [hw, if_false]
            have := ih b
            cases hv : verifyProof H rest b with
            | err e => rw [hv] at this; cases e <;> simp_all [Res.isPanic]
            | ok r => obtain ⟨c', v, rest'⟩ := r; simp [Res.isPanic]
        | value h v w d =>
          simp only
          by_cases hw : b > w <;> simp [hw, Res.isPanic]
        | nil => simp [Res.isPanic]
        | empty => simp [Res.isPanic]
        | hashRef h w => simp [Res.isPanic]

/-- termination of `verifyProof`: every successful call has consumed at least one pair -/
theorem verifyProof_consumes (H : Bytes → Bytes) (ps : List PairD) (b : Nat) (n : WN) (v : Bytes) (rest : List PairD)
    (h : verifyProof H ps b = .ok (n, v, rest)) : rest.length < ps.length := by
  induction ps generalizing b n v rest with
  | nil => simp [verifyProof] at h
  | cons p tl ih =>
    cases p with
    | nilPair => simp [verifyProof] at h
    | bad => simp [verifyProof] at h
    | ok q =>
      unfold verifyProof at h
      cases hq : deserializeNode q with
      | err e => simp [hq] at h
      | ok nd =>
        rw [hq] at h
        cases nd with
        | routing hh ch w d tc =>
          simp only at h
          cases hp : pickChild ch allNib b with
          | none => simp [hp] at h
          | some ib =>
            obtain ⟨i, b'⟩ := ib
            simp only [hp] at h
            cases hv : verifyProof H tl b' with
            | err e => simp [hv] at h
            | ok r =>
              obtain ⟨c, v', rest'⟩ := r
              simp only [hv, Res.ok.injEq, Prod.mk.injEq] at h
              have := ih b' c v' rest' hv
              obtain ⟨_, _, hr⟩ := h
              subst hr
              simp; omega
        | short k hh c d tc =>
          simp only at h
          by_cases hw : b > c.weight
          · simp [hw] at h
          · simp only [hw, if_false] at h
            cases hv : verifyProof H tl b with
            | err e => simp [hv] at h
            | ok r =>
              obtain ⟨c', v', rest'⟩ := r
              simp only [hv, Res.ok.injEq, Prod.mk.injEq] at h
              have := ih b c' v' rest' hv
              obtain ⟨_, _, hr⟩ := h
              subst hr
              simp; omega
        | value hh vv w d =>
          simp only at h
          by_cases hw : b > w
          · simp [hw] at h
          · simp only [hw, if_false, Res.ok.injEq, Prod.mk.injEq] at h
            obtain ⟨_, _, hr⟩ := h
            subst hr; simp
        | nil => simp at h
        | empty => simp at h
        | hashRef hh w => simp at h

/-- `VerifyBlockProof` after the CBOR layer never panics -/
theorem verifyPairs_total (H : Bytes → Bytes) (ps : List PairD) (b : Nat) : (verifyPairs H ps b).isPanic = false := by
  unfold verifyPairs
  by_cases h : ps = []
  · simp [h, Res.isPanic]
  · simp only [h, if_false]
    have := verifyProof_total H ps b
    cases hv : verifyProof H ps b with
    | err e => rw [hv] at this; cases e <;> simp_all [Res.isPanic]
    | ok r => obtain ⟨n, v, rest⟩ := r; simp [Res.isPanic]

/-- `deserializeTrie`: no panic for any pair list (null pairs included: fix 990a210) and any recursion budget -/
theorem deserializeTrie_total (H : Bytes → Bytes) (fuel : Nat) (ps : List PairD) :
    (deserializeTrie H fuel ps).isPanic = false := by
  induction fuel generalizing ps with
  | zero => simp [deserializeTrie, Res.isPanic]
  | succ f ih =>
    cases ps with
    | nil => simp [deserializeTrie, Res.isPanic]
    | cons p rest =>
      cases p with
      | nilPair => simp [deserializeTrie, Res.isPanic]
      | bad => simp [deserializeTrie, Res.isPanic]
      | ok q =>
        unfold deserializeTrie
        have hd := deserializeNode_total q
        cases hq : deserializeNode q with
        | err e => rw [hq] at hd; cases e <;> simp_all [Res.isPanic]
        | ok n =>
          cases n with
          | routing h ch w d tc =>
            simp only
            have := deserKids_total H (deserializeTrie H f) ih allNib ch rest
            cases hk : deserKids H (deserializeTrie H f) allNib ch rest with
            | err e => rw [hk] at this; cases e <;> simp_all [Res.isPanic]
            | ok r => obtain ⟨ch', rest'⟩ := r; simp [Res.isPanic]
          | short k h c d tc =>
            simp only
            have := ih rest
            cases hv : deserializeTrie H f rest with
            | err e => rw [hv] at this; cases e <;> simp_all [Res.isPanic]
            | ok r =>
              obtain ⟨c', rest'⟩ := r
              simp only
              by_cases hh : c.hashField H ≠ c'.hashField H <;> simp [hh, Res.isPanic]
          | value h v w d => simp [Res.isPanic]
          | nil => simp [Res.isPanic]
          | empty => simp [Res.isPanic]
          | hashRef h w => simp [Res.isPanic]

/-- `Deserialize` after the CBOR layer never panics -/
theorem importPairs_total (H : Bytes → Bytes) (ps : List PairD) : (importPairs H ps).isPanic = false := by
  unfold importPairs
  by_cases h : ps = []
  · simp [h, Res.isPanic]
  · simp only [h, if_false]
    have := deserializeTrie_total H (ps.length + 1) ps
    cases hv : deserializeTrie H (ps.length + 1) ps with
    | err e => rw [hv] at this; cases e <;> simp_all [Res.isPanic]
    | ok r =>
      obtain ⟨root, rest⟩ := r
      simp only
      split <;> (split <;> simp [Res.isPanic])

end Verif.Props.C15Wmpt
