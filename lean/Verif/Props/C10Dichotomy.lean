/-
C10 — the dichotomy behind the partial soundness theorem. `Faithful` (hypothesis of `C10_sound_partial`) is much stronger
than "not one of the two open findings"; here its failure on an ACCEPTED proof is pinned to the findings' fingerprints
(Verif/Lemmas/WmptDichotomy.lean), walking the trusted trie and the proof together along the path the TRUE weights select:

  Exhibits t ps b   at the first position where `Faithful` fails, the decoded element has another KIND than the trie's
                    node there (node-kind confusion; also: an element where the trie has nothing), or the same kind but
                    FORGED WEIGHTS (a branch element claiming a child weight that differs from the real child's; a short
                    element claiming another weight for its child; a value element claiming a weight of 2^64 or more —
                    impossible for elements that came through the CBOR layer)

  C10_sound_dichotomy    every proof `verifyProof` accepts (block >= 1) is `Faithful` or `Exhibits` — structural, no hash
                         hypothesis; and never both (`C10_exhibits_iff_not_faithful`)
  C10_sound_trichotomy   hence: an accepted proof for the trusted root yields the true owner's value, or two listed inputs
                         collide under H, or the proof exhibits one of the two fingerprints
  forged proofs of Props/C10 exhibit them: `C10_forgedWeights_exhibits`, `C10_forgedKind_exhibits`
-/
import Verif.Lemmas.WmptDichotomy
namespace Verif.Props.C10
open Verif.Wmpt

theorem C10_sound_dichotomy (H : Bytes → Bytes) (t : PT) (ps : List PairD) (b : Nat) (r : WN × Bytes × List PairD)
    (hv : verifyProof H ps b = .ok r) (hb : 1 ≤ b) : Faithful t ps b ∨ Exhibits t ps b :=
  faithful_or_exhibits H t ps b r hv hb

theorem C10_exhibits_iff_not_faithful (H : Bytes → Bytes) (t : PT) (ps : List PairD) (b : Nat)
    (r : WN × Bytes × List PairD) (hv : verifyProof H ps b = .ok r) (hb : 1 ≤ b) :
    Exhibits t ps b ↔ ¬ Faithful t ps b :=
  accepted_exhibits_iff_not_faithful H t ps b r hv hb

theorem C10_sound_trichotomy (H : Bytes → Bytes) (hlen : ∀ x, (H x).length = 32) (t : PT) (ps : List PairD) (b : Nat)
    (v : Bytes) (hb1 : 1 ≤ b) (hw : t.weight < 2 ^ 64) (hv : verifyPairs H ps b = .ok (t.hash H, v)) :
    (∃ k, ownerSpec t.entries b = some (k, v)) ∨
    CollisionIn H (t.pathInputs H b ++ verifyInputs H ps b) ∨ Exhibits t ps b :=
  sound_trichotomy H hlen t ps b v hb1 hw hv

theorem C10_forgedWeights_exhibits : Exhibits wt forgedWeights 2 := forgedWeights_exhibits

theorem C10_forgedKind_exhibits : Exhibits wt forgedKind 1 := forgedKind_exhibits

end Verif.Props.C10
