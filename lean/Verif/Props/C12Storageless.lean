/-
C12 — sources without storage and re-export of an imported trie (Verif/Lemmas/WmptStorageless.lean).

  export_import_storageless   the source is a trie WITHOUT storage (everything in memory, no reference anywhere:
                              `Rep H (fun _ => False)`; any database flag): the conclusions of `export_import`, the source
                              unchanged and still reference-free
  C12_storageless             …and the conclusion of `C12` (mirrored updates / deletes of requested keys evolve alike)
  reexport_of_import          a path export taken FROM an imported partial trie for keys whose paths are free of references
                              succeeds; its import represents the same spec tree (same root hash and weight), the requested
                              paths are free of references again, and it satisfies the side conditions to be re-exported or
                              evolved again (`covers_step` applies to it)
  export_import_reexport(_storageless)   end to end: export of `keys`, import, re-export of a non-empty sub-list
Precondition throughout: keys are 32 bytes (64 nibbles). With NO key an unmarked branch root is exported as one reference
and GetPath on the storage-less import reports "database is not set" — hence `keys' ≠ []` in the end-to-end forms.
-/
import Verif.Lemmas.WmptStorageless
namespace Verif.Props.C12
open Verif.Wmpt RepOps RepMore

theorem export_import_storageless (H : Bytes → Bytes) (hlen : ∀ x, (H x).length = 32) (t : WT) (ts : PT)
    (keys : List (List Nib))
    (hrep : Rep H (fun _ => False) t.root ts) (hnil : t.root.isNil = false)
    (hp : Proper t.root) (hu : Uniform 64 ts) (hok : PTOK ts)
    (hlk : ∀ k ∈ keys, k.length = 64)
    (hsz : ∀ n', Mark.markedRoot t keys = some n' →
      (∀ b ∈ (collectNodes H n').2, b.length < 2 ^ 64) ∧ (collectNodes H n').2.length < 2 ^ 64) :
    ∃ data r, (getPath H t keys).2 = .ok data ∧
      importTrie H { hasDb := false } data = ({ hasDb := false, root := r }, .ok ()) ∧
      RepP H r ts ∧ (∀ k ∈ keys, Clear r k) ∧
      (rootHash H { hasDb := false, root := r }).2 = (rootHash H (getPath H t keys).1).2 ∧
      WT.weight { hasDb := false, root := r } = (getPath H t keys).1.weight ∧
      (calcHash H r).2 = PT.hash H ts ∧ r.weight = ts.weight ∧
      Rep H (fun _ => False) (getPath H t keys).1.root ts ∧
      (getPath H t keys).1.hasDb = t.hasDb ∧ (getPath H t keys).1.store = t.store :=
  Verif.Wmpt.export_import_storageless H hlen t ts keys hrep hnil hp hu hok hlk hsz

theorem C12_storageless (H : Bytes → Bytes) (hlen : ∀ x, (H x).length = 32) (t : WT) (ts : PT) (keys : List (List Nib))
    (hrep : Rep H (fun _ => False) t.root ts) (hnil : t.root.isNil = false)
    (hp : Proper t.root) (hu : Uniform 64 ts) (hok : PTOK ts)
    (hlk : ∀ k ∈ keys, k.length = 64)
    (hsz : ∀ n', Mark.markedRoot t keys = some n' →
      (∀ b ∈ (collectNodes H n').2, b.length < 2 ^ 64) ∧ (collectNodes H n').2.length < 2 ^ 64)
    (ops : List MOp) (hrun : RunOK (fun k => k ∈ keys) ts ops) :
    ∃ data r, (getPath H t keys).2 = .ok data ∧
      importTrie H { hasDb := false } data = ({ hasDb := false, root := r }, .ok ()) ∧
      (∀ pre, pre <+: ops →
        (rootHash H (mrun H (getPath H t keys).1 pre)).2 = (rootHash H (mrun H { hasDb := false, root := r } pre)).2 ∧
        (mrun H (getPath H t keys).1 pre).weight = (mrun H { hasDb := false, root := r } pre).weight ∧
        (rootHash H (mrun H (getPath H t keys).1 pre)).2 = PT.hash H (srun ts pre) ∧
        (mrun H (getPath H t keys).1 pre).weight = (srun ts pre).weight) ∧
      mouts H (getPath H t keys).1 ops = mouts H { hasDb := false, root := r } ops :=
  Verif.Wmpt.C12_storageless H hlen t ts keys hrep hnil hp hu hok hlk hsz ops hrun

theorem reexport_of_import (H : Bytes → Bytes) (hlen : ∀ x, (H x).length = 32) (r : WN) (ts : PT)
    (keys' : List (List Nib))
    (hrep : RepP H r ts) (hp : Proper r) (hdu : DirtyUp r) (hnil : r.isNil = false) (hnr : isRef r = false)
    (hu : Uniform 64 ts) (hok : PTOK ts)
    (hlk : ∀ k ∈ keys', k.length = 64) (hcl : ∀ k ∈ keys', Clear r k)
    (hsz : ∀ n', Mark.markedRoot { hasDb := false, root := r } keys' = some n' →
      (∀ b ∈ (collectNodes H n').2, b.length < 2 ^ 64) ∧ (collectNodes H n').2.length < 2 ^ 64) :
    ∃ data' r', (getPath H { hasDb := false, root := r } keys').2 = .ok data' ∧
      importTrie H { hasDb := false } data' = ({ hasDb := false, root := r' }, .ok ()) ∧
      RepP H r' ts ∧ (∀ k ∈ keys', Clear r' k) ∧
      (calcHash H r').2 = PT.hash H ts ∧ r'.weight = ts.weight ∧
      (rootHash H { hasDb := false, root := r' }).2 = (rootHash H { hasDb := false, root := r }).2 ∧
      Proper r' ∧ DirtyUp r' ∧ NoEmp r' ∧ r'.isNil = false ∧
      RepP H (getPath H { hasDb := false, root := r } keys').1.root ts ∧
      (rootHash H (getPath H { hasDb := false, root := r } keys').1).2 = PT.hash H ts :=
  Verif.Wmpt.reexport_of_import hlen r ts keys' hrep hp hdu hnil hnr hu hok hlk hcl hsz

theorem export_import_reexport (H : Bytes → Bytes) (hlen : ∀ x, (H x).length = 32) (t : WT) (ts : PT)
    (keys : List (List Nib))
    (hdb : t.hasDb = true) (hrep : RepS H t.store t.root ts) (hnil : t.root.isNil = false)
    (hp : Proper t.root) (hud : UpDirty t.root) (hu : Uniform 64 ts) (hok : PTOK ts)
    (hlk : ∀ k ∈ keys, k.length = 64)
    (hsz : ∀ n', Mark.markedRoot t keys = some n' →
      (∀ b ∈ (collectNodes H n').2, b.length < 2 ^ 64) ∧ (collectNodes H n').2.length < 2 ^ 64)
    (keys' : List (List Nib)) (hsub : ∀ k ∈ keys', k ∈ keys) (hne : keys' ≠ [])
    (hsz' : ∀ r n', Mark.markedRoot { hasDb := false, root := r } keys' = some n' →
      (∀ b ∈ (collectNodes H n').2, b.length < 2 ^ 64) ∧ (collectNodes H n').2.length < 2 ^ 64) :
    ∃ data r, (getPath H t keys).2 = .ok data ∧
      importTrie H { hasDb := false } data = ({ hasDb := false, root := r }, .ok ()) ∧
      RepP H r ts ∧ (∀ k ∈ keys, Clear r k) ∧ ReexportOK H ts keys' r :=
  Verif.Wmpt.export_import_reexport hlen t ts keys hdb hrep hnil hp hud hu hok hlk hsz keys' hsub hne hsz'

end Verif.Props.C12
