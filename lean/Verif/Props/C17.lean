/-
C17 — Missing-node detection is exact and sync repair restores the trie.

Model: `Verif.Model.MptPartial`.  A store is a finite map key ↦ stored bytes; `Unfolds get root pt` says that the partial
tree `pt` is the unfolding of the store from `root` (a key the store lacks becomes the leaf `missing k`; nothing below it
is known), `buildP` computes it.  `hasMissing` = HasMissingNodes (iterate with its `ecount` / error propagation),
`allMissing` = pp2 / GetAllMissingNodes, `lookupP` = getNodeValueRaw, `mergeDB` = MergeDB (after fix 13a4873).
-/
import Verif.Lemmas.MptPartial
namespace Verif.Props.C17
open Verif.Partial Verif.Codec
open Verif.Mpt (Bytes Nib Node key WFn nibChar lookup)

/-- HasMissingNodes answers true exactly when some `missing` node occurs in the partial tree: no error swallowed in a
    branch loop, no false "complete" -/
theorem C17_has_missing (pt : PTree) : hasMissing pt = true ↔ ∃ k, Occurs k pt := by
  have := iterErr_ne_none_iff .missingNodes (by decide) pt
  simp only [hasMissing, bne_iff_ne]
  exact this

/-- GetAllMissingNodes lists exactly the missing nodes of the partial tree (as a set) -/
theorem C17_all_missing (pt : PTree) (k : Bytes) : k ∈ allMissing pt ↔ Occurs k pt := mem_allMissing_iff k pt

/-- … which are exactly the absent nodes reachable through present ones: for the unfolding `pt` of a store from `root`,
    `k` is reported iff the store has no node under `k` and `k` is reachable from `root` by a chain of present,
    decodable nodes each referring to the next -/
theorem C17_all_missing_exact (get : Bytes → Option Bytes) (root : Bytes) (pt : PTree) (h : Unfolds get root pt)
    (k : Bytes) : k ∈ allMissing pt ↔ (get k = none ∧ Reach get root k) :=
  (mem_allMissing_iff k pt).trans (occurs_of_unfolds get root pt h k)

/-- and HasMissingNodes is true iff such a node exists -/
theorem C17_has_missing_exact (get : Bytes → Option Bytes) (root : Bytes) (pt : PTree) (h : Unfolds get root pt) :
    hasMissing pt = true ↔ ∃ k, get k = none ∧ Reach get root k := by
  rw [C17_has_missing]
  exact ⟨fun ⟨k, hk⟩ => ⟨k, (occurs_of_unfolds get root pt h k).mp hk⟩,
    fun ⟨k, hk⟩ => ⟨k, (occurs_of_unfolds get root pt h k).mpr hk⟩⟩

/-- the executable `buildP` (run by the model driver on the stored bytes) computes the unfolding, given fuel beyond
    its depth -/
theorem C17_buildP_computes (get : Bytes → Option Bytes) (root : Bytes) (pt : PTree) (h : Unfolds get root pt)
    (n : Nat) (hn : depth pt < n) : buildP get n root = pt := buildP_complete get root pt h n hn

/-- non-vacuity: a store holding one leaf unfolds to it; a store lacking the key unfolds to `missing` -/
example : Unfolds (fun _ => none) [1] (.missing [1]) := .missing _ rfl

/-- non-vacuity: a store holding an extension whose child is absent unfolds to `ext … (missing child)`; the child key is
    the one reported -/
example : ∃ (get : Bytes → Option Bytes) (root k : Bytes) (pt : PTree), Unfolds get root pt ∧ k ∈ allMissing pt ∧
    hasMissing pt = true := by
  let r : Repr := ⟨1, 1, .ext [97] [9, 9]⟩
  refine ⟨fun k => if k = [1] then some (encode r) else none, [1], [9, 9], .ext [97] (.missing [9, 9]), ?_, by simp [allMissing],
    by decide⟩
  exact .ext [1] (encode r) 1 1 [97] [9, 9] _ (by simp) (by decide) (.missing _ (by simp))

/-- **Which error `iterate` returns.**  `m` is what a missing node yields (`ErrMissingNodes` under HasMissingNodes' handler,
    `ErrNodeNotFound` under a handler that ignores nil nodes).  Over the partial tree the result is
    * nil            iff no node is missing;
    * `m`            iff the missing node is the root or is reached from the root through extensions only
                     (`SpineMissing`: an extension hands its child's error up UNCHANGED);
    * `ErrIteratingChildNodes` iff something is missing and the first non-extension node from the root is a branch
                     (the branch loop counts the failing child and goes on).
    No other value is ever produced, so the identity `switch`es on these three sentinels (branch loop of `iterate`, result
    of HasMissingNodes) never fall into their `default:` arm. -/
theorem C17_iter_error (m : IterErr) (hm : m ≠ .none) (hm2 : m ≠ .iterChild) (pt : PTree) :
    (iterErr m pt = .none ↔ ¬ ∃ k, Occurs k pt) ∧
    (iterErr m pt = m ↔ SpineMissing pt) ∧
    (iterErr m pt = .iterChild ↔ ((∃ k, Occurs k pt) ∧ ¬ SpineMissing pt)) := by
  have h1 := iterErr_ne_none_iff m hm pt
  have h2 := iterErr_spine m hm hm2 pt
  have h3 := iterErr_values m pt
  refine ⟨?_, h2, ?_⟩
  · constructor
    · intro h hex; exact (h1.mpr hex) h
    · intro h; exact Classical.byContradiction fun hne => h (h1.mp hne)
  · constructor
    · intro h
      refine ⟨h1.mp (by rw [h]; decide), fun hs => ?_⟩
      rw [h2.mpr hs] at h; exact hm2 h
    · rintro ⟨hex, hns⟩
      rcases h3 with h | h | h
      · exact absurd h (h1.mpr hex)
      · exact absurd (h2.mp h) hns
      · exact h

/-- the two handlers in use -/
theorem C17_iter_error_hasMissing (pt : PTree) :
    (iterErr .missingNodes pt = .missingNodes ↔ SpineMissing pt) ∧
    (iterErr .nodeNotFound pt = .nodeNotFound ↔ SpineMissing pt) :=
  ⟨(C17_iter_error .missingNodes (by decide) (by decide) pt).2.1, (C17_iter_error .nodeNotFound (by decide) (by decide) pt).2.1⟩

/-- non-vacuity: the same missing node below an extension / below a branch gives the two different errors -/
example : iterErr .nodeNotFound (.ext [97] (.missing [7])) = .nodeNotFound ∧
    iterErr .nodeNotFound (.full (fun i => if i = 0 then .ext [97] (.missing [7]) else .empty) none) = .iterChild := by
  decide

/-- a lookup whose walk crosses a missing node fails with "node not found": never a value, never "not present" -/
theorem C17_lookup (pt : PTree) (q : Bytes) (h : Crosses pt q) : lookupP pt q = .nodeNotFound := lookupP_crosses pt q h

/-- and "node not found" is answered only then -/
theorem C17_lookup_only (pt : PTree) (q : Bytes) (h : lookupP pt q = .nodeNotFound) : Crosses pt q :=
  crosses_of_lookupP pt q h

/-- non-vacuity: a branch whose child '0' is missing; looking up "0…" crosses it -/
example : Crosses (.full (fun i => if i = 0 then .missing [7] else .empty) none) [48, 49] :=
  .full _ _ 48 [49] 0 (by decide) (by simpa using Crosses.here [7] [49])

/-- Repair.  `sFull` is a store that holds every node of the trie `t` (`Resolves`), `s` a sub-store of it (any set of
    nodes removed), `donor` any list — in any order, with repetitions — of (key, node) pairs that `sFull` holds under
    that key, covering what `s` lacks.  After `mergeDB` at ANY trie version `v` the store again holds every node of `t`
    under its key.  (The donor is not touched: `mergeDB` does not return it.) -/
theorem C17_repair (H : Bytes → Bytes) (t : Node) (pre : List Nib) (sFull s : Store) (donor : List (Bytes × Repr))
    (v : Nat)
    (hfull : Resolves H sFull.get t pre)
    (hsub : ∀ k b, s.get k = some b → sFull.get k = some b)
    (hdonor : ∀ e ∈ donor, sFull.get e.1 = some (encode e.2))
    (hcover : ∀ k b, sFull.get k = some b → s.get k = some b ∨ ∃ r, (k, r) ∈ donor) :
    Resolves H (mergeDB v s donor).get t pre := by
  intro e he
  have hf := hfull e he
  exact (mergeDB_get v sFull.get donor s hsub hdonor).2 e.1 _ hf (hcover e.1 _ hf)

/-- … hence (canonical trie, 32-byte hash) the repaired store unfolds from the root key to the complete trie: no missing
    node is detected, GetAllMissingNodes is empty, and the model's `buildP` returns the complete tree -/
theorem C17_repair_complete (H : Bytes → Bytes) (hH : ∀ b, (H b).length = 32) (t : Node) (pre : List Nib) (hw : WFn t)
    (sFull s : Store) (donor : List (Bytes × Repr)) (v : Nat)
    (hfull : Resolves H sFull.get t pre)
    (hsub : ∀ k b, s.get k = some b → sFull.get k = some b)
    (hdonor : ∀ e ∈ donor, sFull.get e.1 = some (encode e.2))
    (hcover : ∀ k b, sFull.get k = some b → s.get k = some b ∨ ∃ r, (k, r) ∈ donor) :
    Unfolds (mergeDB v s donor).get (key H t pre) (toP t) ∧ hasMissing (toP t) = false ∧ allMissing (toP t) = [] := by
  refine ⟨unfolds_of_resolves H hH _ t pre hw (C17_repair H t pre sFull s donor v hfull hsub hdonor hcover), ?_, ?_⟩
  · cases hm : hasMissing (toP t) with
    | false => rfl
    | true => obtain ⟨k, hk⟩ := (C17_has_missing _).mp hm; exact absurd hk (not_occurs_toP k t)
  · cases hl : allMissing (toP t) with
    | nil => rfl
    | cons k l =>
      have : k ∈ allMissing (toP t) := by rw [hl]; simp
      exact absurd ((C17_all_missing _ k).mp this) (not_occurs_toP k t)

/-- the trie version plays no role in the repair BY CONSTRUCTION of the (fixed) code's model: `mergeDB` ignores it — "at any
    version" in `C17_repair` is quantification over an unused argument.  The content of that clause is the pre-fix
    witness `mergeDBOld_fails` (the old code did depend on the version, and failed). -/
theorem C17_repair_version_irrelevant (v v' : Nat) (s : Store) (donor : List (Bytes × Repr)) :
    mergeDB v s donor = mergeDB v' s donor := rfl

/-- Repair from a donor that holds MORE than the missing nodes (the normal sync situation: nodes of other tries, of other
    versions, nodes the store already has): the donor may hold anything under keys the complete store `sFull` does not
    use, and must agree with it on the keys it does use (content addressing); `s` may likewise hold other entries.  The
    store again holds every node of `t`. -/
theorem C17_repair_superset (H : Bytes → Bytes) (t : Node) (pre : List Nib) (sFull s : Store) (donor : List (Bytes × Repr))
    (v : Nat)
    (hfull : Resolves H sFull.get t pre)
    (hsub : ∀ k b b', sFull.get k = some b → s.get k = some b' → b' = b)
    (hdonor : ∀ e ∈ donor, ∀ b, sFull.get e.1 = some b → encode e.2 = b)
    (hcover : ∀ k b, sFull.get k = some b → s.get k = some b ∨ ∃ r, (k, r) ∈ donor) :
    Resolves H (mergeDB v s donor).get t pre := by
  intro e he
  have hf := hfull e he
  exact mergeDB_get_superset v sFull.get donor s hsub hdonor e.1 _ hf (hcover e.1 _ hf)

/-- non-vacuity: the donor of the earlier example plus an unrelated entry under a key the complete store does not use -/
example : ∃ (sFull : Store) (donor : List (Bytes × Repr)), (∀ e ∈ donor, ∀ b, sFull.get e.1 = some b → encode e.2 = b) ∧
    ∃ e ∈ donor, sFull.get e.1 = none := by
  refine ⟨[([1], encode ⟨1, 1, .value [7]⟩)], [([1], ⟨1, 1, .value [7]⟩), ([2], ⟨5, 5, .value [9]⟩)], ?_, ([2], ⟨5, 5, .value [9]⟩), by simp, by simp [Store.get]⟩
  intro e he b hb
  simp at he
  rcases he with rfl | rfl
  · simpa [Store.get] using hb
  · simp [Store.get] at hb

/-- the API function: `GetAllMissingNodes` returns an error iff the root node itself is absent; otherwise its list is, as a
    set, exactly the absent keys reachable through present decodable nodes (the list may repeat a key) -/
theorem C17_getAllMissing (get : Bytes → Option Bytes) (root : Bytes) (pt : PTree) (h : Unfolds get root pt) :
    (getAllMissing pt = none ↔ get root = none) ∧
    ∀ l, getAllMissing pt = some l → ∀ k, k ∈ l ↔ (get k = none ∧ Reach get root k) := by
  obtain ⟨h1, h2⟩ := getAllMissing_of_unfolds get root pt h
  constructor
  · constructor
    · intro hn
      cases hr : get root with
      | none => rfl
      | some b => rw [h2 (by rw [hr]; simp)] at hn; cases hn
    · exact h1
  · intro l hl k
    cases hr : get root with
    | none => rw [h1 hr] at hl; cases hl
    | some b =>
      rw [h2 (by rw [hr]; simp)] at hl
      cases hl
      exact C17_all_missing_exact get root pt h k

/-- … and reads its full content again: on the repaired store the model's `buildP` (any fuel beyond the depth) yields a
    tree on which every lookup answers what the structural trie `t` holds at that path -/
theorem C17_repair_reads (H : Bytes → Bytes) (hH : ∀ b, (H b).length = 32) (t : Node) (pre : List Nib) (hw : WFn t)
    (sFull s : Store) (donor : List (Bytes × Repr)) (v : Nat)
    (hfull : Resolves H sFull.get t pre)
    (hsub : ∀ k b, s.get k = some b → sFull.get k = some b)
    (hdonor : ∀ e ∈ donor, sFull.get e.1 = some (encode e.2))
    (hcover : ∀ k b, sFull.get k = some b → s.get k = some b ∨ ∃ r, (k, r) ∈ donor)
    (n : Nat) (hn : depth (toP t) < n) (p : List Nib) :
    lookupP (buildP (mergeDB v s donor).get n (key H t pre)) (p.map nibChar) = ofOpt (lookup t p) := by
  have hu := (C17_repair_complete H hH t pre hw sFull s donor v hfull hsub hdonor hcover).1
  rw [buildP_complete _ _ _ hu n hn]
  exact lookupP_toP t p

/-- non-vacuity of the repair hypotheses: a one-leaf trie, its only node removed from the store, the donor holding it -/
example : ∃ (H : Bytes → Bytes) (t : Node) (sFull s : Store) (donor : List (Bytes × Repr)),
    (∀ b, (H b).length = 32) ∧ WFn t ∧ Resolves H sFull.get t [] ∧ (∀ k b, s.get k = some b → sFull.get k = some b) ∧
    (∀ e ∈ donor, sFull.get e.1 = some (encode e.2)) ∧
    (∀ k b, sFull.get k = some b → s.get k = some b ∨ ∃ r, (k, r) ∈ donor) ∧ donor ≠ [] ∧ s = [] := by
  let H : Bytes → Bytes := fun _ => List.replicate 32 0
  let t : Node := .leaf 1 [] [65]
  let r : Repr := reprOf H t []
  let k : Bytes := key H t []
  refine ⟨H, t, [(k, encode r)], [], [(k, r)], by simp [H], by simp [t, WFn], ?_, by simp [Store.get], ?_, ?_, by simp, rfl⟩
  · intro e he
    have : e = (k, r) := by simpa [nodesOf, t, k, r] using he
    subst this
    simp [Store.get]
  · intro e he
    have : e = (k, r) := by simpa using he
    subst this
    simp [Store.get]
  · intro k' b h
    right
    by_cases hk : k = k'
    · exact ⟨r, by simp [hk]⟩
    · simp [Store.get, hk] at h

/-- the code before 13a4873 (`mergeDBOld`: every donor node re-stamped with the trie version and stored under the hash
    of the re-stamped node) fails at a version different from the node's creation version: the referenced key is still
    absent and the donor's node is changed.  Witness with the identity as hash function. -/
theorem mergeDBOld_fails :
    let r : Repr := ⟨1, 1, .leaf [] [97] (some [65])⟩
    let k := hashBytes r
    ((mergeDBOld id 6 [] [(k, r)]).1.get k = none) ∧ (mergeDBOld id 6 [] [(k, r)]).2 ≠ [(k, r)] ∧
    ((mergeDB 6 [] [(k, r)]).get k = some (encode r)) := by decide

end Verif.Props.C17
