/-
C20 — In-memory log buffer keeps the most recent entries of all loggers.

Model: `Verif.Model.Ring` (the ring, cursor cells, cores; `derive` = `With`/`clone()` at /repo HEAD, `deriveOld` =
the code before the `fix:` commit).  Specification: one append-only log (`Spec`).
-/
import Verif.Lemmas.RingConc
import Verif.Lemmas.RingHeap
namespace Verif.Props.C20
open Verif.Ring Verif.RingMutex

variable {ε : Type}

/-- **Sequential.**  After *any* history of writes through the root core and through cores derived from it (or from
derived ones) at any times, `GetLogs` returns exactly the `cap` most recent entries of all loggers, newest first.
(`Spec.run` is the specification: every write through an existing logger is consed onto one log.) -/
theorem C20_seq (cap : Nat) (hc : 0 < cap) (h : List (Op ε)) :
    getLogs (run (init cap) h) = (Spec.run Spec.init h).log.take cap :=
  getLogs_of_inv cap _ _ (inv_run cap hc h _ _ (inv_init cap hc))

example : getLogs (run (init 3) [.write 0 'a', .derive 0, .write 1 'b', .derive 1, .write 0 'c', .write 2 'd', .write 1 'e'])
    = ['e', 'd', 'c'] := by decide

/-- The same with `GetLogs` calls anywhere in the history: every result handed out equals what the specification
hands out at that point (`crun`/`specRun` collect the results of the `getLogs` operations in order). -/
theorem C20_seq_reads (cap : Nat) (hc : 0 < cap) (h : List (COp ε)) :
    (crun (init cap, []) h).2 = (specRun cap (Spec.init, []) h).2 :=
  (crun_spec cap hc h _ _ [] (inv_init cap hc)).2

/-- Nothing retained is lost, duplicated or displaced by an older entry: the result is a prefix of the log, so when
all entries written are distinct the result has no duplicates, and it has `min (#written) cap` entries. -/
theorem C20_retained (cap : Nat) (hc : 0 < cap) (h : List (Op ε)) :
    getLogs (run (init cap) h) <+: (Spec.run Spec.init h).log ∧
    (getLogs (run (init cap) h)).length = min cap (Spec.run Spec.init h).log.length ∧
    ((Spec.run Spec.init h).log.Nodup → (getLogs (run (init cap) h)).Nodup) := by
  rw [C20_seq cap hc h]
  exact ⟨List.take_prefix _ _, List.length_take, fun hn => hn.sublist (List.take_sublist _ _)⟩

/-- All cores of one logger write through the one cursor cell and lock the one mutex (model-level counterpart of
the lock fact `derived_shares_mu`). -/
theorem C20_one_cursor_one_mutex (cap : Nat) (hc : 0 < cap) (h : List (Op ε)) :
    ∀ k ∈ (run (init cap : State ε) h).cores, k.cell = 0 ∧ k.mu = 0 := by
  have hi := inv_run cap hc h _ _ (inv_init (ε := ε) cap hc)
  exact fun k hk => ⟨hi.cell k hk, hi.mu k hk⟩

/-! ### Entries as heap objects: what `GetLogs` handed out never changes afterwards

`Verif.Model.RingHeap`: the ring stores *pointers* into a heap of `LoggedEntry` objects; `getLogsH` returns the
pointers, `deref s refs` reads them in the heap of a (later) state `s`. -/

/-- **Snapshot immutability.**  Take the pointers `GetLogs` returns after any history `h1`; after any further history
`h2` of writes (through any loggers) and derivations they still read exactly the same entries — and those are the
entries of the value-level model, i.e. (C20_seq) the `cap` newest ones at the time of the call.  So no retained entry
is overwritten, neither in the buffer nor in the hands of a caller. -/
theorem C20_snapshot_immutable (cap : Nat) (h1 h2 : List (Op ε)) :
    deref (runH (runH (initH cap) h1) h2) (getLogsH (runH (initH cap) h1))
      = deref (runH (initH cap) h1) (getLogsH (runH (initH cap) h1)) ∧
    deref (runH (initH cap) h1) (getLogsH (runH (initH cap) h1)) = getLogs (run (init cap) h1) := by
  have hv := validH_run h1 _ (validH_init (ε := ε) cap)
  refine ⟨(deref_stable _ hv h2).1, ?_⟩
  rw [← getLogs_absH, absH_run h1 _ (validH_init cap), absH_init]

/-- The heap model is a refinement of the value model on every history: same `GetLogs` contents, every pointer valid. -/
theorem C20_heap_refines (cap : Nat) (h : List (Op ε)) :
    absH (runH (initH cap) h) = run (init cap) h ∧
    (deref (runH (initH cap) h) (getLogsH (runH (initH cap) h))).length = (getLogsH (runH (initH cap) h)).length := by
  refine ⟨by rw [absH_run h _ (validH_init cap), absH_init], ?_⟩
  exact (deref_stable _ (validH_run h _ (validH_init (ε := ε) cap)) []).2

example : let s1 := runH (initH 2) [.write 0 'a', .derive 0, .write 1 'b']
    deref s1 (getLogsH s1) = ['b', 'a'] ∧ deref (runH s1 [.write 0 'c', .write 1 'd']) (getLogsH s1) = ['b', 'a'] := by
  decide

/-- **The code before the fix violates it** (`writeOldH`: `Write` reuses the `LoggedEntry` object of the slot it
overwrites): with capacity 2, after `a, b` the snapshot reads `[b, a]`; one more write `c` through the same logger and
the *same pointers* read `[b, c]`.  (On the implementation: `corpus/C20/fixed_snapshot_entry_reused.ops`, capacity
1024.) -/
theorem C20_snapshot_old_false :
    let s1 := runOldH (initH 2) [.write 0 'a', .write 0 'b']
    deref s1 (getLogsH s1) = ['b', 'a'] ∧
    deref (runOldH s1 [.write 0 'c']) (getLogsH s1) = ['b', 'c'] := by
  decide

/-- the witness history: r1, With, d1, r2, d2 -/
def witness : List (Op String) :=
  [.write 0 "r1", .derive 0, .write 1 "d1", .write 0 "r2", .write 1 "d2"]

/-- **The code before the fix violates the property** (`deriveOld`: cursor copied by value into the derived core):
the witness history yields `[r2, r1, d2]` — `d1` is lost and `d2` is reported older than `r1` — where the
specification (and the fixed model) gives `[d2, r2, d1, r1]`.  At the real capacity 1024. -/
theorem C20_old_false :
    getLogs (runOld (init 1024) witness) = ["r2", "r1", "d2"] ∧
    (Spec.run Spec.init witness).log.take 1024 = ["d2", "r2", "d1", "r1"] ∧
    getLogs (run (init 1024) witness) = ["d2", "r2", "d1", "r1"] := by
  decide +kernel

/-- … so the sequential statement is false of the old model. -/
theorem C20_seq_old_false :
    ¬ ∀ (cap : Nat), 0 < cap → ∀ h : List (Op String),
      getLogs (runOld (init cap) h) = (Spec.run Spec.init h).log.take cap := by
  intro H
  have := H 1024 (by decide) witness
  rw [C20_old_false.1, C20_old_false.2.1] at this
  exact absurd this (by decide)

/-- **Concurrent.**  `progs t` is the list of calls goroutine `t` makes (`Write` through some core, `With`,
`GetLogs`), `sched` any schedule of their micro-steps (`Write` = store the entry, then advance the cursor).  If the
lock facts hold — `Write`, `GetLogs` and `clone` hold the mutex around every access to the ring, and derived cores
share the root's mutex — then whenever all goroutines have finished there is one total order `lin` of all calls,
containing each goroutine's calls in program order, such that the final ring state and *every* `GetLogs` result are
those of the sequential execution of `lin`; hence (C20_seq_reads) every `GetLogs` returned exactly the `cap` most
recent entries of that order, newest first. -/
theorem C20_conc (F : LockFacts) (hF : F.ok = true) (cap : Nat) (hc : 0 < cap)
    (progs : Nat → List (COp ε)) (sched : List Nat)
    (hfin : (exec (sem F) (start (init cap, []) progs) sched).finished) :
    ∃ lin : List (Nat × COp ε),
      (∀ t, proj lin t = progs t) ∧
      (exec (sem F) (start (init cap, []) progs) sched).shared = crun (init cap, []) (lin.map (·.2)) ∧
      (exec (sem F) (start (init cap, []) progs) sched).shared.2 = (specRun cap (Spec.init, []) (lin.map (·.2))).2 := by
  obtain ⟨lin, hp, hs⟩ := exec_linearizable (sem F) (init cap, []) progs
    (fun _ o _ => sem_locked F hF o) sched hfin
  refine ⟨lin, hp, ?_, ?_⟩
  · rw [hs, seqRun_eq_crun]
  · rw [hs, seqRun_eq_crun]
    exact C20_seq_reads cap hc _

/-- the facts as they are at /repo HEAD (to be replaced by the generated table at merge time) -/
def factsAtHead : LockFacts := ⟨true, true, true, true⟩

/-- non-vacuity of `C20_conc`: two goroutines, a derived logger, interleaved schedule with blocked attempts; the run
finishes and the reader got the two newest entries. -/
example :
    let progs : Nat → List (COp Char) := fun t =>
      if t = 0 then [.write 0 'a', .derive 0, .write 1 'b'] else if t = 1 then [.write 0 'c', .getLogs] else []
    let c := exec (sem factsAtHead) (start (init 2, []) progs) [0, 1, 0, 1, 0, 0, 1, 1, 1, 1, 0, 0, 0, 1, 1, 1, 0, 0, 0, 0]
    (∀ t < 2, c.cur t = none ∧ c.todo t = []) ∧ c.shared.2 = [['c', 'a']] := by
  decide

/-- without the lock on `Write` the conclusion fails: two unlocked writers both store into the same slot before
either advances the cursor, and an entry is lost (no sequential order of the two writes yields this ring). -/
example :
    let progs : Nat → List (COp Char) := fun t => if t = 0 then [.write 0 'a'] else if t = 1 then [.write 0 'b'] else []
    let c := exec (sem ⟨false, true, true, true⟩) (start (init 2, []) progs) [0, 1, 0, 1, 0, 1, 0, 1]
    getLogs c.shared.1 = ['b'] := by
  decide

end Verif.Props.C20
