/-
Non-vacuity of the weighted-trie theorems whose hypotheses are quantified over prefixes / sub-trees: concrete data (toy
hash, a history with a commit, an update through the collapsed reference, a hash read and a second commit; a branch over
two short leaves) on which ALL hypotheses of `C09_through_storage`, `C10_complete` and `C10_complete_model` hold — the
witnesses are proved in Verif/Lemmas/WmptExamples.lean.
-/
import Verif.Lemmas.WmptExamples
namespace Verif.Props.WmptNonVacuity
open Verif.Wmpt

/-- every hypothesis of `C09_through_storage` holds on the history `wxOps` -/
theorem C09_through_storage_hypotheses_hold :
    (∀ op ∈ wxOps, op.plain ∧ op.wf) ∧ (∀ p q, wxOps = p ++ q → RepOps.PTOK (specRun p)) ∧
    (∀ p lvl q, wxOps = p ++ .commit lvl :: q → HashInj toyH (fun x => PT.Sub x (specRun p))) :=
  c09_through_storage_hyps

/-- …so its conclusion holds there (and the history is not trivial: weight 5, two entries) -/
theorem C09_through_storage_instance :
    (hrun toyH wxOps).t.weight = entriesWeight (specRun wxOps).entries ∧ (specRun wxOps).weight = 5 ∧
    (specRun wxOps).entries.length = 2 :=
  ⟨c09_through_storage_instance.1, wx_history_shape.1, wx_history_shape.2⟩

/-- every hypothesis of `C10_complete` holds on the tree `wxT10` and block 3, and the conclusion names the second key -/
theorem C10_complete_instance :
    (1 ≤ 3 ∧ 3 ≤ wxT10.weight ∧ wxT10.weight < 2 ^ 64 ∧ KeysNib wxT10) ∧
    ∃ k v, ownerSpec wxT10.entries 3 = some (k, v) ∧
      verifyPairs toyH ((wxT10.proofPairs toyH 3).map PairD.ok) 3 = .ok (wxT10.hash toyH, v) :=
  ⟨c10_complete_hyps, c10_complete_instance⟩

/-- every hypothesis of `C10_complete_model` holds on the trie state after `wxOps`, and its conclusion there -/
theorem C10_complete_model_instance :
    ∃ key proof v, (blockProof toyH (hrun toyH wxOps).t 3).2 = .ok (key, proof) ∧
      ownerSpec (specRun wxOps).entries 3 = some (RepMore.keybytesToHex key, v) ∧
      verifyBlockProof toyH proof 3 = .ok ((specRun wxOps).hash toyH, v) :=
  c10_complete_model_instance

end Verif.Props.WmptNonVacuity
